"""Runner: tiers, seeds, sharding over workers, verdicts, evidence, exit codes.

  ./check <Cxx> [--tier quick|thorough] [--seed N] [--jobs N] [--replay FILE]

Exit codes: 0 held on what was observed (KNOWN-FINDING lines allowed),
            1 violation (a line `VIOLATION property=<id> replay=<path>`),
            2 inconclusive (a line `INCONCLUSIVE property=<id> reason=...`).
"""
import argparse
import concurrent.futures as cf
import hashlib
import importlib
import json
import os
import shutil
import subprocess
import sys
import tempfile
import time

ROOT = os.path.dirname(os.path.dirname(os.path.abspath(__file__)))
PY = os.environ.get("VMON_PYTHON", "/venv/bin/python")


def repo_dir():
  return os.environ.get("VMON_REPO", "/repo")


def ensure_deps():
  """icontract/deal beside the repo's interpreter (git-ignored .deps)."""
  deps = os.path.join(ROOT, ".deps")
  if os.path.isdir(os.path.join(deps, "icontract")):
    return deps
  os.makedirs(deps, exist_ok=True)
  subprocess.run([PY, "-m", "pip", "install", "-q", "--no-index", "--find-links",
                  "/opt/veriftools/wheels", "--target", deps, "icontract", "deal"],
                 stdout=subprocess.DEVNULL, stderr=subprocess.DEVNULL, check=False)
  return deps


def worker_env(env_spec):
  env = dict(os.environ)
  deps = os.path.join(ROOT, ".deps")
  env["PYTHONPATH"] = os.pathsep.join([repo_dir(), ROOT, deps])
  env["VMON_REPO"] = repo_dir()
  env["PRECONDITION_VERIF"] = "1"
  env["PYTHONHASHSEED"] = "0"
  env["JAX_PLATFORMS"] = "cpu"
  env["JAX_ENABLE_X64"] = "1" if env_spec.get("x64") else "0"
  env["OMP_NUM_THREADS"] = "1"
  env["TF_CPP_MIN_LOG_LEVEL"] = "3"
  flags = ["--xla_cpu_multi_thread_eigen=false", "intra_op_parallelism_threads=1"]
  nd = int(env_spec.get("devices", 1))
  if nd > 1:
    flags.insert(0, "--xla_force_host_platform_device_count=%d" % nd)
  env["XLA_FLAGS"] = " ".join(flags)
  return env


def run_worker(prop, spec, workdir, idx, timeout):
  spec_path = os.path.join(workdir, "spec_%d.json" % idx)
  out_path = os.path.join(workdir, "out_%d.json" % idx)
  with open(spec_path, "w") as f:
    json.dump(spec, f)
  t0 = time.time()
  try:
    p = subprocess.run([PY, "-m", "vmon.worker", prop, spec_path, out_path],
                       env=worker_env(spec.get("env", {})), cwd=ROOT,
                       stdout=subprocess.PIPE, stderr=subprocess.STDOUT,
                       timeout=timeout)
    tail = p.stdout.decode("utf8", "replace")[-2000:]
    if os.path.exists(out_path):
      with open(out_path) as f:
        out = json.load(f)
      out["log_tail"] = tail if out.get("status") != "ok" else ""
      return out
    return {"status": "worker_died", "error": "rc=%s %s" % (p.returncode, tail)}
  except subprocess.TimeoutExpired:
    return {"status": "timeout", "error": "watchdog %.0fs" % (time.time() - t0)}


def repo_revision():
  try:
    rev = subprocess.run(["git", "-C", repo_dir(), "rev-parse", "HEAD"],
                         capture_output=True, text=True).stdout.strip()
    diff = subprocess.run(["git", "-C", repo_dir(), "diff", "HEAD"],
                          capture_output=True).stdout
    return rev, hashlib.sha1(diff).hexdigest()[:12] if diff else "clean"
  except Exception:  # pylint: disable=broad-except
    return "unknown", "unknown"


def load_known():
  path = os.path.join(ROOT, "known_findings.json")
  if not os.path.exists(path):
    return []
  with open(path) as f:
    return json.load(f).get("findings", [])


def main(argv=None):
  ap = argparse.ArgumentParser()
  ap.add_argument("prop")
  ap.add_argument("--tier", default=os.environ.get("VERIF_TIER", "quick"),
                  choices=["quick", "thorough"])
  ap.add_argument("--seed", type=int, default=int(os.environ.get("VERIF_SEED", "0")))
  ap.add_argument("--jobs", type=int, default=int(os.environ.get("VMON_JOBS", "16")))
  ap.add_argument("--replay", default=None)
  ap.add_argument("--only", default=None, help="substring filter on shard names (debug)")
  args = ap.parse_args(argv)
  prop = args.prop.upper()
  sys.path.insert(0, ROOT)
  ensure_deps()
  mod = importlib.import_module("vmon.monitors." + prop.lower())
  t0 = time.time()
  workdir = tempfile.mkdtemp(prefix="vmon_%s_" % prop)
  try:
    if args.replay:
      return replay(prop, mod, args, workdir)
    shards = mod.shards(args.tier, args.seed)
    if args.only:
      shards = [s for s in shards if args.only in s.get("name", "")]
    timeout = getattr(mod, "TIMEOUT", {"quick": 900, "thorough": 5400})[args.tier]
    for s in shards:
      s.setdefault("seed", args.seed)
      s.setdefault("tier", args.tier)
    results = [None] * len(shards)
    with cf.ThreadPoolExecutor(max_workers=max(1, args.jobs)) as ex:
      futs = {ex.submit(run_worker, prop, s, workdir, i, timeout): i
              for i, s in enumerate(shards)}
      for fu in cf.as_completed(futs):
        results[futs[fu]] = fu.result()
    return conclude(prop, mod, args, shards, results, time.time() - t0)
  finally:
    shutil.rmtree(workdir, ignore_errors=True)


def conclude(prop, mod, args, shards, results, wall):
  keys = set()
  counters, maxima, skips, vcounts = {}, {}, {}, {}
  samples, violations, problems = [], [], []
  evaluations = 0
  for s, r in zip(shards, results):
    st = r.get("status")
    if st in ("timeout", "worker_died", "harness_error"):
      problems.append("%s:%s:%s" % (s.get("name", "?"), st, (r.get("error") or "")[-300:].replace("\n", " | ")))
    if "evaluations" not in r:
      continue
    evaluations += r["evaluations"]
    keys.update(r["keys"])
    for k, v in r["counters"].items():
      counters[k] = counters.get(k, 0) + v
    for k, v in r["maxima"].items():
      maxima[k] = max(maxima.get(k, v), v)
    for k, v in r["skips"].items():
      skips[k] = skips.get(k, 0) + v
    for k, v in r.get("violation_counts", {}).items():
      vcounts[k] = vcounts.get(k, 0) + v
    if len(samples) < 6:
      samples.extend(r["samples"][:2])
    for v in r["violations"]:
      v["shard"] = {k: s[k] for k in s if k != "replay"}
      violations.append(v)

  known = {k["mechanism"]: k for k in load_known()
           if k.get("property") == prop and k.get("status") == "known"}
  lines, new_viol, seen_known = [], {}, {}
  for v in violations:
    m = v["mechanism"]
    if m in known:
      seen_known.setdefault(m, v)
    else:
      new_viol.setdefault(m, v)
  for m, v in sorted(seen_known.items()):
    lines.append("KNOWN-FINDING: property=%s %s [%s; %d occurrence(s) this run; e.g. %s]" % (
        prop, known[m]["text"], m, vcounts.get(m, 1), v["text"][:160]))
  replay_dir = os.path.join(os.environ.get("VMON_REPLAYS", os.path.join(ROOT, "replays")), prop)
  for m, v in sorted(new_viol.items()):
    os.makedirs(replay_dir, exist_ok=True)
    fn = os.path.join(replay_dir, "%s_%s.json" % (
        "".join(c if c.isalnum() else "_" for c in m)[:60],
        hashlib.sha1(json.dumps(v["witness"], sort_keys=True).encode()).hexdigest()[:8]))
    with open(fn, "w") as f:
      json.dump({"property": prop, "mechanism": m, "text": v["text"],
                 "shard": v["shard"], "witness": v["witness"]}, f, indent=1)
    lines.append("VIOLATION property=%s replay=%s mechanism=%s count=%d :: %s" % (
        prop, os.path.relpath(fn, ROOT) if fn.startswith(ROOT) else fn, m, vcounts.get(m, 1), v["text"][:300]))

  # -- inconclusive conditions ------------------------------------------------
  reasons = list(problems)
  for name in getattr(mod, "DECIDING", []):
    if counters.get(name, 0) <= 0:
      reasons.append("deciding counter %s is zero" % name)
  min_nt = getattr(mod, "MIN_NONTRIVIAL", 2)
  if len(keys) < min_nt:
    reasons.append("only %d distinct non-trivial cases (< %d)" % (len(keys), min_nt))
  nskip = sum(skips.values())
  if evaluations and nskip > getattr(mod, "MAX_SKIP_FRACTION", 0.2) * (evaluations + nskip):
    reasons.append("skipped %d of %d cases" % (nskip, evaluations + nskip))

  verdict = "violated" if new_viol else ("inconclusive" if reasons else "held")
  rev, dirty = repo_revision()
  ev = {
      "property_id": prop,
      "tier": args.tier,
      "seed": args.seed,
      "level": mod.LEVEL,
      "coverage": {
          "evaluations": evaluations,
          "distinct_nontrivial": len(keys),
          "rule": mod.RULE,
          "samples": samples[:6] or ["none"],
          "counters": counters,
          "maxima_margins": maxima,
          "skips": skips,
          "shards": len(shards),
          "worker_problems": problems,
          "violation_counts_by_mechanism": vcounts,
          "known_findings_seen": sorted(seen_known),
      },
      "assumptions": getattr(mod, "ASSUMPTIONS", []),
      "wall_s": round(wall, 2),
      "violations": len(new_viol),
      "verdict": verdict,
      "inconclusive_reasons": reasons,
      "repo_revision": rev,
      "repo_worktree_diff": dirty,
      "repo_dir": repo_dir(),
  }
  exh = getattr(mod, "exhaustive", None)
  if exh is not None:
    ev["coverage"]["exhaustive"] = bool(exh(args.tier, counters))
  os.makedirs(os.path.join(ROOT, "evidence"), exist_ok=True)
  evpath = os.environ.get("VMON_EVIDENCE", os.path.join(ROOT, "evidence", prop + ".json"))
  with open(evpath, "w") as f:
    json.dump(ev, f, indent=1, sort_keys=True)

  for l in lines:
    print(l)
  print("%s %s tier=%s seed=%d: %s; evaluations=%d distinct_nontrivial=%d wall=%.0fs" % (
      prop, repo_dir(), args.tier, args.seed, verdict.upper(), evaluations, len(keys), wall))
  interesting = {k: v for k, v in sorted(counters.items())}
  print("  counters: " + json.dumps(interesting)[:1500])
  if maxima:
    print("  margins (max observed/tolerance): " + json.dumps({k: float("%.3g" % v) for k, v in sorted(maxima.items())})[:1200])
  if skips:
    print("  skips: " + json.dumps(skips)[:600])
  if new_viol:
    return 1
  if reasons:
    print("INCONCLUSIVE property=%s reason=%s" % (prop, "; ".join(reasons)[:1500]))
    return 2
  return 0


def replay(prop, mod, args, workdir):
  with open(args.replay) as f:
    rp = json.load(f)
  spec = dict(rp.get("shard", {}))
  spec["replay"] = rp["witness"]
  spec["replay_mechanism"] = rp.get("mechanism")
  r = run_worker(prop, spec, workdir, 0, 3600)
  if r.get("status") in ("timeout", "worker_died", "harness_error"):
    print("INCONCLUSIVE property=%s reason=replay %s %s" % (prop, r.get("status"), (r.get("error") or "")[-500:]))
    return 2
  known = {k["mechanism"] for k in load_known()
           if k.get("property") == prop and k.get("status") == "known"}
  rc = 0
  for v in r["violations"]:
    if v["mechanism"] in known:
      print("KNOWN-FINDING: property=%s [%s] %s" % (prop, v["mechanism"], v["text"][:300]))
    else:
      print("VIOLATION property=%s replay=%s mechanism=%s :: %s" % (prop, args.replay, v["mechanism"], v["text"][:300]))
      rc = 1
  if not r["violations"]:
    print("%s replay: no violation reproduced (evaluations=%d)" % (prop, r["evaluations"]))
  return rc


if __name__ == "__main__":
  sys.exit(main())
