"""C05 — grafting: warm-up uses the graft step, afterwards only its norm is transplanted.

Observed: pre-momentum updates (beta1=0 / momentum_decay=0, no weight decay, lr=1) of
distributed_shampoo for every grafting type and every preconditioner representation (full,
low-rank compressed +-r, frequent-directions sketched, int16-quantised), and of Tearfree
(Shampoo and Sketchy directions, four grafting types, masked leaves).
Oracle: closed-form grafting steps from the monitor's own float64 accumulators;
||u|| == ||graft step||; u parallel to the reference application of the preconditioner that
is *stored in the real state* (dense reconstruction of packed / de-quantised forms), so the
check is independent of how the roots were computed; zero preconditioned gradient => zero update;
warm-up and skipped leaves => the graft step itself.
"""
import contextlib
import io
import time

import numpy as np

from vmon import dsharness as H
from vmon import dswork as W
from vmon import util
from vmon.monitors import c02
from vmon.refmodels import ds_ref as R

PROPERTY = "C05"
LEVEL = "exploration"
RULE = ("random cases: distributed_shampoo graft types 1..6 x representation {full, compressed +r, compressed -r, FD sketch (x64 off), "
        "pmap int16-quantised, sharded 2-device mesh} x trees of 1-3 leaves rank 1..4 (dims up to 9, unit dims) x block {4,8} x merging on/off x skip rules x "
        "start {0,2} x 6-step histories with scale 1e-2..1e2 (30% entry-sparse with exact zeros) and a zero-gradient step; Tearfree: graft {SGD,RMSPROP,ADAFACTOR,NONE} x "
        "{Shampoo, Sketchy} x start {0,2} x rank-1 / dim-threshold masking x preconditioner frequency {1,3} x {dense, row-sparse embedding-like} histories.  evaluations = (leaf, step) observations; non-trivial = case "
        "with a post-start observation on a preconditioned leaf; distinct by hash of the case")
ASSUMPTIONS = ["momentum, Nesterov and weight decay disabled and lr=1 so the returned update is minus the pre-momentum update",
               "norm identity checked to 2e-5 relative (float32); direction checked componentwise against the reference application with its running error bound"]
DECIDING = ["observations", "norm_checked", "direction_checked", "warmup_checked", "skipped_leaf_checked", "packed_axes_seen",
            "tf_norm_checked", "tf_direction_checked"]
MIN_NONTRIVIAL = 30
MAX_SKIP_FRACTION = 0.4
TIMEOUT = {"quick": 1500, "thorough": 7200}
SHAPES = [(5,), (7,), (9, 6), (6, 1), (1, 7), (4, 3), (3, 8, 2), (2, 3, 4), (3, 1, 2, 2), (2, 2, 2, 3), (8, 8), (9, 2)]
REPS = ["full", "comp+", "comp-", "pmapq", "full", "sharded"]


def shards(tier, seed):
  n = 10 if tier == "quick" else 150
  out = []
  for i in range(11):
    out.append({"name": "ds%d" % i, "env": {"x64": True, "devices": 2}, "kind": "ds", "n": n, "budget_s": 1200 if tier == "quick" else 6500})
  for i in range(3):
    out.append({"name": "fd%d" % i, "env": {"x64": False, "devices": 1}, "kind": "fd", "n": n, "budget_s": 1200 if tier == "quick" else 6500})
  for i in range(2):
    out.append({"name": "tf%d" % i, "env": {"x64": False, "devices": 1}, "kind": "tf", "n": n * 2, "budget_s": 1200 if tier == "quick" else 6500})
  return out


def gen_case(rng, kind):
  rep = "fd" if kind == "fd" else REPS[int(rng.integers(0, len(REPS)))]
  tree = W.gen_tree(rng, 3, SHAPES)
  cfg = dict(
      graft_type=int(rng.integers(1, 7)), beta1=0.0, nesterov=False, weight_decay=0.0, learning_rate=1.0,
      moving_average_for_momentum=False, decoupled_learning_rate=True,
      block_size=int(rng.choice([4, 8])), beta2=float(rng.choice([0.9, 0.999, 1.0])),
      diagonal_epsilon=float(rng.choice([1e-8, 1e-3])), start_preconditioning_step=int(rng.choice([0, 2])),
      best_effort_shape_interpretation=bool(rng.integers(0, 2)), merge_small_dims_block_size=int(rng.choice([1, 6, 4096])),
      skip_preconditioning_rank_lt=int(rng.choice([1, 1, 2])), skip_preconditioning_dim_size_gt=int(rng.choice([4096, 8, 6])),
      matrix_epsilon=float(rng.choice([1e-3, 1e-6])), eigh=bool(rng.integers(0, 2)),
      preconditioning_compute_steps=int(rng.choice([1, 2])),
  )
  cfg["statistics_compute_steps"] = 1
  if rng.random() < 0.3:
    # coupled learning rate: the graft step carries lr and the final multiplier is 1, so the update is still minus the
    # pre-momentum update
    cfg.update(decoupled_learning_rate=False, learning_rate=float(rng.choice([0.3, 2.0])))
  if cfg["graft_type"] in (3, 4) and rng.random() < 0.5:
    cfg["clip_by_scaled_gradient_norm"] = float(rng.choice([0.5, 0.05]))
  if rep == "comp+":
    cfg["compression_rank"] = int(rng.choice([1, 2]))
  elif rep == "comp-":
    cfg["compression_rank"] = -int(rng.choice([1, 2]))
  elif rep == "fd":
    cfg.update(compression_rank=int(rng.choice([1, 2])), frequent_directions=True, reuse_preconditioner=True,
               statistics_compute_steps=cfg["preconditioning_compute_steps"])
  return {"cfg": cfg, "tree": tree, "rep": rep, "T": 6, "sparse": bool(rng.random() < 0.3), "hseed": int(rng.integers(0, 2 ** 31))}


def materialize(case):
  if "grads" in case:
    return ({k: np.asarray(v, np.float32) for k, v in case["params"].items()},
            [{k: np.asarray(v, np.float32) for k, v in g.items()} for g in case["grads"]])
  rng = np.random.default_rng(case["hseed"])
  params = W.gen_params(rng, case["tree"])
  hist = W.gen_history(rng, case["tree"], case["T"], "sparse" if case.get("sparse") else "scales")
  zt = int(rng.integers(1, case["T"]))
  hist[zt] = {k: v * 0 for k, v in hist[zt].items()}
  return params, hist


def closed_form_graft(gt, g, acc, beta2, eps, clip=None, lr_coupled=None):
  """Grafting optimizer step from the monitor's own accumulator (updated in place); RMSProp variants are clipped to a
  scaled norm when configured; a coupled learning rate multiplies the step last."""
  upd = _closed_form_graft(gt, g, acc, beta2, eps)
  if clip and gt in (3, 4):
    n = np.linalg.norm(upd) / np.sqrt(float(upd.size))
    upd = upd / max(1.0, n / clip)
  if lr_coupled is not None:
    upd = upd * lr_coupled
  return upd


def _closed_form_graft(gt, g, acc, beta2, eps):
  g = np.asarray(g, np.float64)
  if gt in (4, 6):
    sg = g / (np.linalg.norm(g) + 1e-25)
  else:
    sg = g
  if gt in (2, 6):
    acc += sg * sg
    return sg / (np.sqrt(acc) + eps)
  if gt in (3, 4):
    w2 = 1.0 if beta2 == 1.0 else 1.0 - beta2
    acc *= beta2
    acc += w2 * sg * sg
    return sg / (np.sqrt(acc) + eps)
  if gt == 1:
    return g
  return np.sign(g)


def check_ds(case, rec):
  cfgd, tree, rep = case["cfg"], case["tree"], case["rep"]
  params, hist = materialize(case)
  wit = dict(case, params=params, grads=hist)
  cfg = R.Cfg(**{k: v for k, v in cfgd.items() if k not in ("compression_rank", "frequent_directions", "reuse_preconditioner")})
  cr = cfgd.get("compression_rank", 0)
  mode = "pmapq" if rep == "pmapq" else ("sharded" if rep == "sharded" else "jit")
  known = H.known_c07_mechanisms()
  try:
    run = H.Runner(cfgd, params, mode, 2 if mode == "sharded" else 1)
  except Exception as e:  # pylint: disable=broad-except
    kind, where = H.classify_exception(e)
    if kind == "reject":
      rec.skip("rejected:" + where)
    elif ("crash:" + where) in known:
      rec.skip("known-C07:" + where)
    else:
      rec.violation("crash:" + where, "init raised %s: %s" % (type(e).__name__, str(e)[:200]), wit)
    return
  keys = sorted(tree)
  acc = {k: np.zeros(tuple(tree[k])) for k in keys}
  nontrivial = False
  for t, g in enumerate(hist):
    pre = run.view()
    try:
      u, _ = run.step(g)
    except Exception as e:  # pylint: disable=broad-except
      kind, where = H.classify_exception(e)
      if kind == "reject":
        rec.skip("rejected:" + where)
      elif ("crash:" + where) in known:
        rec.skip("known-C07:" + where)
      else:
        rec.violation("crash:" + where, "update raised %s at step %d: %s" % (type(e).__name__, t, str(e)[:200]), wit)
      return
    post = run.view()
    un = run.updates_np(u)
    for k in keys:
      shape = tuple(tree[k])
      uk = np.asarray(un[k], np.float64)
      gk = np.asarray(g[k], np.float64)
      gr = closed_form_graft(cfg.graft_type, gk, acc[k], cfg.beta2, cfg.diagonal_epsilon, cfg.clip_by_scaled_gradient_norm,
                             None if cfg.decoupled_learning_rate else cfg.learning_rate)
      ngr = np.linalg.norm(gr)
      rec.count("observations")
      skipped = R.skip(cfg, shape)
      tol_rel = 3e-5 + (2e-5 * (t + 1) if cfg.graft_type in (2, 3, 4, 6) else 0.0)
      if not np.all(np.isfinite(uk)):
        rec.violation("non-finite-update", "non-finite update for %s at step %d" % (k, t), wit)
        return
      if t < cfg.start_preconditioning_step or skipped:
        rec.count("skipped_leaf_checked" if skipped else "warmup_checked")
        if np.max(np.abs(uk + gr)) > tol_rel * max(np.max(np.abs(gr)), 1e-30) + 1e-30:
          rec.violation("not-graft-step:" + ("skipped-leaf" if skipped else "warm-up"),
                        "step %d leaf %s %s (graft %d): update is not the grafting optimizer's step (max diff %.3g, max|graft| %.3g)" % (
                            t, k, shape, cfg.graft_type, np.max(np.abs(uk + gr)), np.max(np.abs(gr))), wit)
          return
        continue
      nontrivial = True
      a, b = pre["params"][k], post["params"][k]
      dense = [R.dense_of_stored(pm, cr) for pm in (a if mode == "sharded" else b)["precs"]]
      rec.count("packed_axes_seen", sum(d["packed"] for d in dense))
      rec.count("has_zeros_axes_seen", sum(d["has_zeros"] for d in dense))
      ds0 = a["diag_stats"] if a["diag_stats"] is not None else 0.0
      ex = R.expected_update(cfg, shape, g[k], params[k], t, dense, ds0, a["mom"], a["diag_mom"])
      npg = np.linalg.norm(ex["pg"])
      nu = np.linalg.norm(uk)
      # norm transplant
      rec.count("norm_checked")
      if npg <= 1e-30 * max(1.0, np.linalg.norm(gk)):
        rec.count("zero_preconditioned_gradient")
        if nu != 0.0:
          rec.violation("nonzero-update-for-zero-direction", "step %d leaf %s: preconditioned gradient is zero but update norm %.3g" % (t, k, nu), wit)
          return
        continue
      rel_dir_err = np.linalg.norm(ex["e_pg"]) / npg
      if abs(nu - ngr) > (tol_rel + 4 * rel_dir_err) * ngr + 1e-30:
        rec.violation("norm-not-transplanted:" + rep, "step %d leaf %s %s graft %d: ||update|| = %.8g but ||graft step|| = %.8g" % (t, k, shape, cfg.graft_type, nu, ngr), wit)
        return
      rec.maxi("norm_relerr_over_tol", abs(nu - ngr) / ((tol_rel + 4 * rel_dir_err) * ngr + 1e-30))
      # direction
      rec.count("direction_checked")
      ok, ratio = c02._within(uk, ex["update"], ex["e_update"] + tol_rel * np.abs(ex["update"]))
      rec.maxi("direction_err_over_bound", ratio)
      if not ok:
        cos = float(np.dot(uk.ravel(), -ex["pg"].ravel()) / (nu * npg + 1e-300))
        rec.violation("direction-not-preconditioned-gradient:" + rep,
                      "step %d leaf %s %s graft %d (%s): update is not parallel to the stored preconditioner applied to the gradient (cos %.6f, %.3g x bound)" % (
                          t, k, shape, cfg.graft_type, rep, cos, ratio), wit)
        return
  rec.case(util.key_hash({k: case.get(k) for k in ("cfg", "tree", "rep", "hseed", "sparse")}), nontrivial,
           sample={"cfg": cfgd, "tree": tree, "rep": rep})
  rec.count("cases_" + rep)
  rec.count("graft_%d" % cfg.graft_type)


# ------------------------------------------------------------------------ tearfree
def gen_tf_case(rng):
  shapes = [(4, 3), (6,), (8, 4), (2, 3, 2), (4, 4), (3, 5), (8, 2, 2), (12, 3)]
  n = int(rng.integers(1, 4))
  return {"kind": "tf", "tree": {"p%d" % j: list(shapes[int(rng.integers(0, len(shapes)))]) for j in range(n)},
          "graft": str(rng.choice(["sgd", "rmsprop", "adafactor", "none"])), "second": str(rng.choice(["shampoo", "sketchy"])),
          "start": int(rng.choice([0, 2])), "decay": float(rng.choice([0.9, 1.0, 0.99])), "skip_rank1": bool(rng.integers(0, 2)),
          "dim_gt": int(rng.choice([4096, 6])), "eps": float(rng.choice([1e-8, 1e-3])), "T": 6, "hseed": int(rng.integers(0, 2 ** 31)),
          # embedding-like gradients (only some rows non-zero, changing over time) with a preconditioner refreshed every 3 steps:
          # a newly active row is unseen by the pseudo-inverse root, so the preconditioned gradient is exactly zero there
          "rowsparse": bool(rng.random() < 0.35), "pfreq": int(rng.choice([1, 3]))}


def check_tf(case, rec):
  import jax
  import jax.numpy as jnp
  import optax
  from precondition.tearfree import grafting, momentum, optimizer as tfo, second_order, shampoo as tshampoo, sketchy
  from vmon.refmodels import tf_ref
  rng = np.random.default_rng(case["hseed"])
  tree = case["tree"]
  if "grads" in case:
    params = {k: np.asarray(v, np.float32) for k, v in case["params"].items()}
    hist = [{k: np.asarray(v, np.float32) for k, v in g.items()} for g in case["grads"]]
  else:
    params = W.gen_params(rng, tree)
    hist = W.gen_history(rng, tree, case["T"], "scales", -1, 1)
    hist[3] = {k: v * 0 for k, v in hist[3].items()}
    if case.get("rowsparse"):
      for t, g in enumerate(hist):
        for k, v in g.items():
          if v.ndim >= 2:
            keep = np.zeros(v.shape[0], bool)
            keep[t % v.shape[0]] = True
            hist[t][k] = (v * keep.reshape((-1,) + (1,) * (v.ndim - 1))).astype(np.float32)
  wit = dict(case, params=params, grads=hist)
  gtype = {"sgd": grafting.GraftingType.SGD, "rmsprop": grafting.GraftingType.RMSPROP,
           "adafactor": grafting.GraftingType.ADAFACTOR, "none": grafting.GraftingType.NONE}[case["graft"]]
  decay = case["decay"]
  if gtype == grafting.GraftingType.ADAFACTOR and decay == 1.0:
    decay = 0.9
  if gtype in (grafting.GraftingType.SGD, grafting.GraftingType.NONE):
    decay = 0.0
  if case["second"] == "sketchy":
    so = second_order.Options(merge_dims=2, second_order_type=second_order.SecondOrderType.SKETCHY, shampoo_options=None,
                              sketchy_options=sketchy.Options(rank=2, second_moment_decay=0.9))
  else:
    so = second_order.Options(merge_dims=2, shampoo_options=tshampoo.Options(block_size=4, second_moment_decay=0.9,
                                                                             update_preconditioners_freq=case.get("pfreq", 1)))
  gopts = grafting.Options(grafting_type=gtype, second_moment_decay=decay, start_preconditioning_step=case["start"],
                           epsilon=case["eps"], skip_preconditioning_rank1=case["skip_rank1"],
                           skip_preconditioning_any_dim_gt=case["dim_gt"], min_dim_size_to_factor=4,
                           multiply_by_parameter_scale=False)
  opts = tfo.TearfreeOptions(grafting_options=gopts, second_order_options=so,
                             momentum_options=momentum.Options(momentum_decay=0.0, weight_decay=0.0))
  jp = {k: jnp.asarray(v) for k, v in params.items()}
  try:
    with contextlib.redirect_stdout(io.StringIO()):
      opt = tfo.tearfree(1.0, opts)
      st = opt.init(jp)
      upd = jax.jit(opt.update)
  except Exception as e:  # pylint: disable=broad-except
    kind, where = H.classify_exception(e)
    if kind == "reject":
      rec.skip("rejected:" + where)
    else:
      rec.violation("crash:" + where, "tearfree init raised %s: %s" % (type(e).__name__, str(e)[:200]), wit)
    return
  # independent graft optimizers
  acc = {k: np.zeros(tuple(s)) for k, s in tree.items()}
  if gtype == grafting.GraftingType.ADAFACTOR:
    af = optax.adafactor(min_dim_size_to_factor=4, decay_rate=decay, multiply_by_parameter_scale=False,
                         eps=case["eps"], clipping_threshold=1.0)
    af_state = af.init(jp)
  nontrivial = False
  for t, g in enumerate(hist):
    jg = {k: jnp.asarray(v) for k, v in g.items()}
    with contextlib.redirect_stdout(io.StringIO()):
      u, st2 = upd(jg, st, jp)
    if gtype == grafting.GraftingType.ADAFACTOR:
      au, af_state = af.update(jg, af_state, jp)
    for k in sorted(tree):
      shape = tuple(tree[k])
      uk = np.asarray(u[k], np.float64)
      gk = np.asarray(g[k], np.float64)
      rec.count("observations")
      masked = (case["skip_rank1"] and len(shape) <= 1) or any(s > case["dim_gt"] for s in shape)
      if gtype == grafting.GraftingType.SGD:
        gr = gk
      elif gtype == grafting.GraftingType.RMSPROP:
        acc[k] = acc[k] + gk * gk if decay == 1.0 else gk * gk * (1 - decay) + decay * acc[k]
        gr = gk / np.sqrt(acc[k] + case["eps"])
      elif gtype == grafting.GraftingType.ADAFACTOR:
        gr = -np.asarray(au[k], np.float64)
      else:
        gr = None
      # direction from the second-order state stored in the real post-state
      if gtype == grafting.GraftingType.NONE:
        so_state = st2[0][1]
      else:
        so_state = st2[0].direction[1]
      if gtype != grafting.GraftingType.NONE and (masked or t < case["start"]):
        rec.count("skipped_leaf_checked" if masked else "warmup_checked")
        if np.max(np.abs(uk + gr)) > 2e-5 * max(np.max(np.abs(gr)), 1e-30) + 1e-30:
          rec.violation("tf-not-graft-step:" + ("masked-leaf" if masked else "warm-up"),
                        "Tearfree step %d leaf %s %s graft %s: update is not the grafting step" % (t, k, shape, case["graft"]), wit)
          return
        continue
      try:
        base, ebase = tf_ref.apply_stored(case["second"], so_state, k, gk, merge_dims=2, block=4, masked_tree=None, with_bound=True)
      except tf_ref.Unsupported as e:
        rec.skip("tf-ref-unsupported:%s" % e)
        continue
      nontrivial = True
      nb = np.linalg.norm(base)
      nu = np.linalg.norm(uk)
      if gtype == grafting.GraftingType.NONE:
        rec.count("tf_direction_checked")
        if np.any(np.abs(uk + base) > 2e-4 * max(np.max(np.abs(base)), 1e-30) + ebase + 1e-30):
          rec.violation("tf-none-graft-not-direction", "Tearfree NONE grafting: update differs from the second-order direction", wit)
          return
        continue
      rec.count("tf_norm_checked")
      if nb <= 1e-30 * max(1.0, np.linalg.norm(gk)):
        rec.count("tf_zero_direction_seen")
        if nu > 1e-20 * max(1.0, np.linalg.norm(gk)):
          rec.violation("tf-nonzero-update-for-zero-direction", "Tearfree: zero direction but update norm %.3g" % nu, wit)
          return
        continue
      ngr = np.linalg.norm(gr)
      rel_dir_err = float(np.linalg.norm(ebase) / nb)
      if abs(nu - ngr) > (5e-5 + 4 * rel_dir_err) * ngr + 1e-30:
        rec.violation("tf-norm-not-transplanted", "Tearfree step %d leaf %s graft %s %s: ||update|| %.8g != ||graft step|| %.8g" % (t, k, case["graft"], case["second"], nu, ngr), wit)
        return
      rec.count("tf_direction_checked")
      ref = -base * (ngr / nb)
      tol = 5e-4 if case["second"] == "sketchy" else 2e-4
      if np.any(np.abs(uk - ref) > tol * np.max(np.abs(ref)) + (ebase + np.abs(base) * rel_dir_err) * (ngr / nb) + 1e-30):
        rec.violation("tf-direction-not-preconditioned-gradient", "Tearfree step %d leaf %s graft %s %s: update not parallel to the stored preconditioner applied to the gradient (rel %.3g)" % (
            t, k, case["graft"], case["second"], np.max(np.abs(uk - ref)) / np.max(np.abs(ref))), wit)
        return
    st = st2
  rec.case(util.key_hash({k: case[k] for k in case if k not in ("grads", "params")}), nontrivial,
           sample={k: case[k] for k in case if k not in ("grads", "params")})
  rec.count("cases_tf_" + case["second"])
  rec.count("tf_graft_" + case["graft"])


def run(spec, rec):
  rng = util.rng_for(spec["seed"], PROPERTY, spec["name"])
  for i in range(spec["n"]):
    if i % 8 == 7:
      util.release_compiled_code()
    if time.time() > rec.deadline:
      rec.count("dropped_for_budget", spec["n"] - i)
      break
    if spec["kind"] == "tf":
      check_tf(gen_tf_case(rng), rec)
    else:
      check_ds(gen_case(rng, spec["kind"]), rec)


def replay(witness, rec):
  w = util.dec(witness)
  if w.get("kind") == "tf":
    check_tf(w, rec)
  else:
    check_ds(w, rec)
