"""C03 — a preconditioner is replaced only by a verified root; failures never leak.

Observed: preconditioner leaves of the optimizer state before/after every
update (bitwise) and the reported inverse_pth_root_errors, under injected
NaN / Inf / zero / tiny / huge / overflowing gradients, through the public API
in replicated, pmap-quantized and sharded modes.
Oracle (per step of every fault word):
  changed_i(t) => refresh(t) and isfinite(err_i(t)) and err_i(t) < threshold
  all stored preconditioners finite
  update finite whenever the whole history so far is moderate (0 or 1e-12..1e12)
Fault enumeration: every word of length <= T over a 7-letter alphabet is replayed
(trie walk, one compiled step per configuration).
"""
import itertools
import time

import numpy as np

from vmon import dsharness as H
from vmon import util

PROPERTY = "C03"
LEVEL = "fault_enumeration"
ALPHABET = ["normal", "zero", "tiny", "huge", "overflow", "nan", "inf"]
MODERATE = {"normal", "zero", "tiny", "huge"}
RULE = ("fault enumeration: for each configuration in {failure threshold 0,1e-30,0.1,1e30} x {matrix epsilon 0,1e-6} x {Newton,eigh} "
        "x {preconditioner interval 1,2} x {jit, pmap int16-quantised, sharded 2-device mesh} x {x64 on, off}, plus 72 configurations with all-1x1 statistics, a 64x64 statistic, or a padded 1x1 statistic among larger ones (ragged last block), plus 24 configurations with a 1600-entry leaf, plus 48 configurations with compressed / frequent-directions (with and without reset_preconditioner) / LOBPCG-deflated (top-1, and top-2 after a single iteration) / warm-started roots, plus 12 with normalised grafting (thorough: x graft {SGD, RMSProp, normalised AdaGrad}), ALL words of length T "
        "(T=3 quick: 343 words, 399 steps; thorough T=5 restricted to <=3 non-normal letters) over the alphabet "
        "{normal, zero, tiny 1e-12, huge 1e12, overflow 1e30, NaN entry, +-Inf entry} are replayed through one compiled step; "
        "evaluations = words; a word is non-trivial when it contains a rejected root attempt or a poisoned (NaN/Inf/overflow) step; "
        "distinct by (configuration, word)")
ASSUMPTIONS = ["reported errors are read from training_metrics of the post-state (generate_training_metrics=True)",
               "main grid: two leaves (4,3) and (5,), block 8: three statistics of sizes 4,3,5 padded to a common size; extra configurations: all-1x1 statistics {(1,),(1,1)}, one 64x64 statistic {(64,),(3,)}, ragged last block of size one {(9,4),(3,)}"]
DECIDING = ["steps", "accepts", "rejects_by_threshold", "rejects_by_nan", "non_refresh_steps", "poisoned_steps", "moderate_update_checked"]
MIN_NONTRIVIAL = 100
TIMEOUT = {"quick": 1500, "thorough": 7200}
TREE = {"a": [4, 3], "b": [5]}


def exhaustive(tier, counters):
  return counters.get("dropped_for_budget", 0) == 0


def all_configs(tier="quick"):
  out = []
  grafts = [1] if tier == "quick" else [1, 3, 6]      # SGD; thorough adds RMSProp and normalised AdaGrad grafting
  for x64, mode, thr, eps, eigh, interval, graft in itertools.product(
      [True, False], ["jit", "pmapq", "sharded"], [0.0, 1e-30, 0.1, 1e30], [0.0, 1e-6], [False, True], [1, 2], grafts):
    c = {"x64": x64, "mode": mode, "thr": thr, "eps": eps, "eigh": eigh, "interval": interval}
    if graft != 1:
      c["graft"] = graft
    out.append(c)
  # other statistic sizes: all-1x1 statistics (scalar root branch) and one 64x64 statistic (large reductions)
  for x64, mode, eigh, interval, tree in itertools.product([True, False], ["jit", "pmapq", "sharded"], [False, True], [1, 2], ["ones", "big", "ragged1"]):
    out.append({"x64": x64, "mode": mode, "thr": 0.1, "eps": 1e-6, "eigh": eigh, "interval": interval, "tree": tree})
  # normalised grafting types in the quick tier too (zero gradients through g / (|g| + 1e-25))
  if tier == "quick":
    for x64, mode, graft in itertools.product([True, False], ["jit", "pmapq", "sharded"], [4, 6]):
      out.append({"x64": x64, "mode": mode, "thr": 0.1, "eps": 1e-6, "eigh": False, "interval": 1, "graft": graft})
  # generate_training_metrics=False: the errors are not observable, the gate must work all the same
  for x64, mode, interval in itertools.product([True, False], ["jit", "pmapq", "sharded"], [1, 2]):
    out.append({"x64": x64, "mode": mode, "thr": 0.1, "eps": 1e-6, "eigh": False, "interval": interval, "nm": True})
  # a leaf with 1600 entries: moderate (1e12) gradients have a norm above 3.4e13, where quotients by the 1e-25 guard overflow float32
  for x64, mode, eigh, eps in itertools.product([True, False], ["jit", "pmapq", "sharded"], [False, True], [0.0, 1e-6]):
    out.append({"x64": x64, "mode": mode, "thr": 0.1, "eps": eps, "eigh": eigh, "interval": 2, "tree": "large"})
  # other preconditioner representations / root routines: low-rank compressed, frequent-directions sketch, LOBPCG-deflated
  # Newton, warm-started (reuse_preconditioner); tree with statistics large enough for them
  for x64, mode, interval, rep in itertools.product([True, False], ["jit", "sharded"], [1, 2], ["comp", "fd", "fd_reset", "lobpcg", "lobpcg2", "reuse"]):
    if rep == "fd" and x64 and False:
      continue
    out.append({"x64": x64, "mode": mode, "thr": 0.1, "eps": 1e-6, "eigh": False, "interval": interval,
                # LOBPCG: a square leaf, so both statistics are un-padded, full rank, and larger than 5k
                "tree": {"lobpcg": "sq", "lobpcg2": "sq12"}.get(rep, "wide"), "rep": rep})
  return out


TREES = {"wide": {"a": [8, 6], "b": [7]}, "sq": {"a": [8, 8], "b": [7]}, "sq12": {"a": [12, 12], "b": [7]}, "large": {"a": [40, 40], "b": [3]},"default": {"a": [4, 3], "b": [5]}, "ones": {"a": [1], "b": [1, 1]}, "big": {"a": [64], "b": [3]},
         # ragged last block of size one: a padded 1x1 statistic among larger ones
         "ragged1": {"a": [9, 4], "b": [3]}}


def tree_of(c):
  return TREES[c.get("tree", "default")]


def shards(tier, seed):
  cfgs = all_configs(tier)
  T = 3 if tier == "quick" else 5
  out = []
  for x64 in (True, False):
    mine = [c for c in cfgs if c["x64"] == x64]
    for i in range(8):
      out.append({"name": "x64%d_%d" % (int(x64), i), "env": {"x64": x64, "devices": 2},
                  "configs": mine[i::8], "T": T, "max_faults": 3 if tier == "thorough" else 99,
                  "budget_s": 1200 if tier == "quick" else 6500})
  return out


def grads_for(depth, letter, seed, tree=None):
  tree = tree or TREE
  rng = np.random.default_rng([seed, depth, ALPHABET.index(letter)])
  g = {k: rng.standard_normal(tuple(s)) for k, s in tree.items()}
  if letter == "zero":
    g = {k: v * 0 for k, v in g.items()}
  elif letter == "tiny":
    g = {k: v * 1e-12 for k, v in g.items()}
  elif letter == "huge":
    g = {k: v * 1e12 for k, v in g.items()}
  elif letter == "overflow":
    g = {k: v * 1e30 for k, v in g.items()}
  elif letter == "nan":
    g["a"].flat[min(4, g["a"].size - 1)] = np.nan
    g["b"].flat[min(2, g["b"].size - 1)] = np.nan
  elif letter == "inf":
    g["a"].flat[min(2, g["a"].size - 1)] = np.inf
    g["b"].flat[min(4, g["b"].size - 1)] = -np.inf
  return {k: np.asarray(v, np.float32) for k, v in g.items()}


def make_runner(c):
  cfg = dict(block_size=64 if c.get("tree") in ("big", "large") else 8, graft_type=c.get("graft", 1), start_preconditioning_step=1, merge_small_dims_block_size=1,
             best_effort_shape_interpretation=False,
             inverse_failure_threshold=c["thr"], matrix_epsilon=c["eps"], eigh=c["eigh"],
             preconditioning_compute_steps=c["interval"], learning_rate=0.1,
             beta2=c.get("beta2", 0.999))
  if c.get("nm"):
    cfg["generate_training_metrics"] = False
  rep = c.get("rep")
  if rep:
    cfg["block_size"] = 16
  if rep == "comp":
    cfg["compression_rank"] = 1
  elif rep == "fd":
    cfg.update(compression_rank=1, frequent_directions=True, reuse_preconditioner=True, statistics_compute_steps=c["interval"])
  elif rep == "fd_reset":
    # reset_preconditioner: the sketch is restarted every round(1/(1-beta2)) = 2 steps; a rejected root on a reset step must
    # still leave the stored preconditioner untouched
    cfg.update(compression_rank=1, frequent_directions=True, reuse_preconditioner=True, reset_preconditioner=True,
               statistics_compute_steps=c["interval"], beta2=0.5)
  elif rep == "lobpcg":
    cfg["lobpcg_topk_precondition"] = 1
  elif rep == "lobpcg2":
    # two deflated directions after a single LOBPCG iteration: an inaccurate deflation that only the unconditioned error exposes
    cfg.update(lobpcg_topk_precondition=2, lobpcg_max_iter=1)
  elif rep == "reuse":
    cfg["reuse_preconditioner"] = True
  params = {k: np.ones(tuple(s), np.float32) for k, s in tree_of(c).items()}
  return H.Runner(cfg, params, c["mode"], 2 if c["mode"] == "sharded" else 1)


def check_step(c, word, t, pre, post, un, rec):
  """Returns a violation tuple or None."""
  refresh = (t % c["interval"] == 0)
  thr = c["thr"]
  rec.count("steps")
  if not refresh:
    rec.count("non_refresh_steps")
  letter = word[-1]
  if letter not in MODERATE:
    rec.count("poisoned_steps")
  rejected_here = False
  tree = tree_of(c)
  for k in sorted(tree):
    a, b = pre["params"][k], post["params"][k]
    m = b["metrics"]
    for i in range(len(b["precs_bits"])):
      changed = a["precs_bits"][i] != b["precs_bits"][i]
      P = b["precs"][i]
      if not np.all(np.isfinite(P)):
        return ("non-finite-preconditioner:" + c["mode"], "stored preconditioner %s[%d] holds a non-finite value after word %s" % (k, i, "-".join(word)))
      nm = bool(c.get("nm"))
      # without training metrics the error of an attempt is unobservable: an installed root is then held to the threshold itself
      err = thr if nm else float(m["errors"][i])
      if refresh and not nm:
        if err != err:
          rec.count("rejects_by_nan")
          rejected_here = True
        elif err >= thr:
          rec.count("rejects_by_threshold")
          rejected_here = True
        else:
          rec.count("accepts")
      if changed and c["x64"] and c["mode"] != "pmapq" and not c.get("rep") in ("comp", "fd", "fd_reset") and all(l in MODERATE for l in word):
        # "verified" is checked, not taken on trust: on moderate words (no overflow/NaN/Inf letter; float64 roots) an installed root
        # must satisfy the C01 residual oracle against the statistics stored in the same state
        from vmon.monitors import c02
        from vmon.refmodels import ds_ref
        cfgr = ds_ref.Cfg(matrix_epsilon=c["eps"], relative_matrix_epsilon=True, eigh=c["eigh"], inverse_failure_threshold=thr)
        S = b["stats"][i]
        if S.shape[0] == S.shape[1] and np.all(np.isfinite(S)) and c["eps"] > 0 and err == err and (err < min(thr, 0.1) or nm):
          shape_k = tuple(tree[k])
          pexp = 2 * len(shape_k)
          msize = max(max(tuple(sh)) for sh in tree.values())
          msz = max(x.shape[0] for kk in tree for x in post["params"][kk]["stats"])
          if nm:
            msg = c02.root_check_unknown_retries(cfgr, S, P, err, None, pexp, msz, False, rec)
          else:
            msg = c02.root_check(cfgr, S, P, err, float(m["retries"][i]), None if c["eigh"] else float(m["max_ev"][i]), pexp, msz, False, rec)
          rec.count("installed_roots_residual_checked")
          if msg:
            return ("installed-root-not-a-root:" + c["mode"], "preconditioner %s[%d] installed at step %d with reported error %g, but %s (word %s)" % (k, i, t, err, msg, "-".join(word)))
      if changed:
        rec.count("preconditioner_changes")
        if not refresh:
          return ("changed-off-refresh:" + c["mode"], "preconditioner %s[%d] changed on non-refresh step %d (word %s)" % (k, i, t, "-".join(word)))
        if not nm and not (err == err and np.isfinite(err) and err < thr):
          return ("unverified-root-installed:" + c["mode"], "preconditioner %s[%d] replaced at step %d although reported error %r is not finite and < threshold %g (word %s)" % (k, i, t, err, thr, "-".join(word)))
  if all(l in MODERATE for l in word):
    rec.count("moderate_update_checked")
    for k in sorted(tree):
      if not np.all(np.isfinite(un[k])):
        return ("non-finite-update-moderate-history:" + c["mode"], "update for %s is non-finite after the moderate history %s" % (k, "-".join(word)))
  return "rejected" if rejected_here else None


def run_config(c, T, max_faults, seed, rec, only_word=None):
  try:
    runner = make_runner(c)
  except Exception as e:  # pylint: disable=broad-except
    kind, where = H.classify_exception(e)
    rec.violation("crash:" + where, "constructing %s raised %s: %s" % (c, type(e).__name__, str(e)[:200]), {"config": c})
    return
  root_state = runner.state
  ckey = util.key_hash(c)
  stop = {"v": False}

  def dfs(state, pre_view, word, nontrivial):
    depth = len(word)
    for letter in ALPHABET:
      if stop["v"]:
        return
      if only_word is not None and only_word[depth] != letter:
        continue
      w = word + [letter]
      if sum(l != "normal" for l in w) > max_faults:
        continue
      if time.time() > rec.deadline:
        rec.count("dropped_for_budget")
        stop["v"] = True
        return
      g = grads_for(depth, letter, seed, tree_of(c))
      try:
        u, st = runner.step(g, state)
      except Exception as e:  # pylint: disable=broad-except
        kind, where = H.classify_exception(e)
        rec.violation("crash:" + where, "update raised %s on word %s: %s" % (type(e).__name__, "-".join(w), str(e)[:200]),
                      {"config": c, "word": w, "seed": seed})
        stop["v"] = True
        return
      post = runner.view(st)
      un = runner.updates_np(u)
      r = check_step(c, w, depth, pre_view, post, un, rec)
      nt = nontrivial or (r == "rejected") or (letter not in MODERATE)
      if isinstance(r, tuple):
        rec.violation(r[0], r[1] + " [config %s]" % c, {"config": c, "word": w, "seed": seed})
        # keep exploring other words but not below a violating prefix
        rec.case(ckey + "".join(l[0] for l in w), True)
        continue
      if depth + 1 < T:
        dfs(st, post, w, nt)
      else:
        rec.case(ckey + ":" + "".join(l[:2] for l in w), nt,
                 sample={"config": c, "word": w} if (nt and letter == "nan") else None)

  dfs(root_state, runner.view(root_state), [], False)
  rec.count("configs")
  rec.count("configs_" + c["mode"])


def run(spec, rec):
  for c in spec["configs"]:
    if time.time() > rec.deadline:
      rec.count("dropped_for_budget")
      break
    run_config(c, spec["T"], spec["max_faults"], spec["seed"], rec)


def replay(witness, rec):
  w = util.dec(witness)
  word = w.get("word")
  if word is None:
    run_config(w["config"], 3, 99, w.get("seed", 0), rec)
  else:
    run_config(w["config"], len(word), 99, w.get("seed", 0), rec, only_word=word)
