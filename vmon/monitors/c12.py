"""C12 — SM3 accumulators cover the true (decayed) second moment.

Observed: state.stats[*].diagonal_statistics and updates of sm3() after every
public update.  Oracle: exact float64 per-entry accumulator nu.
"""
import time

import numpy as np

from vmon import util

PROPERTY = "C12"
LEVEL = "exploration"
RULE = ("random configurations (shape rank 1..4 incl. unit dims, beta1, beta2 in (0,1], weight decay, "
        "gradient normalisation, lr) x gradient histories of 4..10 steps from families "
        "{gauss, scale-varying 1e-4..1e4, sparse, zero steps, spike, one-hot, constant}; a case is one "
        "(configuration, history); non-trivial when some gradient is non-zero; distinct by hash of "
        "configuration+history seed")
ASSUMPTIONS = [
    "cover and step inequalities are checked with relative slack 1e-5 (float32 state)",
    "step bound for beta1>0 is evaluated on the pre-momentum preconditioned gradient recovered from "
    "the update and the dequantised stored momentum",
]
DECIDING = ["cover_checked", "step_bound_checked", "rank1_equality_checked", "monotone_checked", "momentum_increment_checked"]
MIN_NONTRIVIAL = 30
TIMEOUT = {"quick": 900, "thorough": 5400}

SHAPES = [(5,), (1,), (7,), (3, 4), (1, 6), (5, 1), (2, 3, 4), (3, 1, 2), (2, 2, 2, 3), (4, 4), (2, 5, 2), (1, 1, 3, 2), (9,), (6, 3)]
FAMS = ["gauss", "scales", "sparse", "zeros", "spike", "onehot", "const"]


def shards(tier, seed):
  ns = 16
  n = 40 if tier == "quick" else 400
  return [{"name": "s%d" % i, "env": {"x64": True}, "n": n,
           "budget_s": 500 if tier == "quick" else 4500} for i in range(ns)]


def gen_case(rng):
  shape = SHAPES[int(rng.integers(0, len(SHAPES)))]
  c = {
      "shape": list(shape),
      "beta1": float(rng.choice([0.0, 0.0, 0.9, 0.5])),
      "beta2": float(rng.choice([1.0, 1.0, 0.999, 0.9, 0.5, 0.1])),
      "weight_decay": float(rng.choice([0.0, 0.0, 0.1])),
      "normalize": bool(rng.random() < 0.25),
      "lr": float(rng.choice([0.5, 1.0, 0.01])),
      "eps": float(rng.choice([1e-10, 1e-3, 1e-30])),
      "family": FAMS[int(rng.integers(0, len(FAMS)))],
      "T": int(rng.integers(4, 11)),
      "hseed": int(rng.integers(0, 2 ** 31)),
  }
  if rng.random() < 0.05:
    # bfloat16 parameters and gradients, long history: the accumulators must still cover the exact second moment of the
    # (bfloat16-valued) gradients to a few bfloat16 roundings of one term (2^-5 relative); only the accumulator clauses are checked
    c.update(bf16=True, T=600, family=str(rng.choice(["gauss", "pm1"])), normalize=False)
  return c


def gen_history(c):
  rng = np.random.default_rng(c["hseed"])
  shape = tuple(c["shape"])
  out = []
  for t in range(c["T"]):
    fam = c["family"]
    if fam == "gauss":
      g = rng.standard_normal(shape)
    elif fam == "pm1":
      g = rng.choice([1.0, -1.0, 0.5, -0.5], size=shape)
    elif fam == "scales":
      g = rng.standard_normal(shape) * 10.0 ** rng.uniform(-4, 4)
    elif fam == "sparse":
      g = rng.standard_normal(shape) * (rng.random(shape) < 0.3)
    elif fam == "zeros":
      g = rng.standard_normal(shape) * (0.0 if t % 2 else 1.0)
    elif fam == "spike":
      g = rng.standard_normal(shape) * (1e4 if t == 1 else 1.0)
    elif fam == "onehot":
      g = np.zeros(shape)
      g.flat[int(rng.integers(0, g.size))] = rng.standard_normal()
    else:
      g = np.full(shape, 0.37 * (1 if t % 3 else -2))
    out.append(np.asarray(g, np.float32))
  return out, np.asarray(rng.standard_normal(shape), np.float32)


def check_case(c, rec):
  import jax
  import jax.numpy as jnp
  from precondition import sm3
  hist, p0 = (c["grads"], c["param"]) if "grads" in c else gen_history(c)
  hist = [np.asarray(g, np.float32) for g in hist]
  p0 = np.asarray(p0, np.float32)
  bf16 = bool(c.get("bf16"))
  dt = jnp.bfloat16 if bf16 else jnp.float32
  if bf16:
    # the reference sees exactly the bfloat16 values the optimizer receives
    hist = [np.asarray(jnp.asarray(g, jnp.bfloat16).astype(jnp.float32)) for g in hist]
    p0 = np.asarray(jnp.asarray(p0, jnp.bfloat16).astype(jnp.float32))
    rec.count("bfloat16_cases")
  shape = tuple(c["shape"])
  b1, b2, wd, lr, eps = c["beta1"], c["beta2"], c["weight_decay"], c["lr"], c["eps"]
  opt = sm3.sm3(lr, beta1=b1, beta2=b2, diagonal_epsilon=eps, weight_decay=wd,
                normalize_grads=c["normalize"])
  params = {"w": jnp.asarray(p0, dt)}
  st = opt.init(params)
  upd = jax.jit(opt.update)
  nu = np.zeros(shape)
  w2 = 1.0 if b2 == 1.0 else 1.0 - b2
  wm = 1.0 if b1 == 1.0 else 1.0 - b1
  wit = dict(c, grads=hist, param=p0)
  nontrivial = any(np.any(g != 0) for g in hist)
  rec.case(util.key_hash({k: c[k] for k in c if k not in ("grads", "param")}), nontrivial,
           sample={k: c[k] for k in c if k not in ("grads", "param")})
  rec.count("family_" + c["family"])
  rec.count("rank_%d" % len(shape))
  prev_acc = [np.asarray(a.astype(jnp.float32), np.float64) for a in st.stats["w"].diagonal_statistics]
  for t, g in enumerate(hist):
    m_pre = np.asarray(st.stats["w"].diagonal_momentum.to_float().astype(jnp.float32), np.float64)
    u, st = upd({"w": jnp.asarray(g, dt)}, st, params)
    u = np.asarray(u["w"].astype(jnp.float32), np.float64)
    g64 = g.astype(np.float64)
    if c["normalize"]:
      g64 = g64 / (np.linalg.norm(g64) + 1e-16)
    nu = b2 * nu + w2 * g64 ** 2
    accs = [np.asarray(a.astype(jnp.float32), np.float64) for a in st.stats["w"].diagonal_statistics]
    if len(accs) != len(shape) or any(a.shape != (shape[i],) for i, a in enumerate(accs)):
      rec.violation("accumulator-layout", "accumulator shapes %s for tensor %s" % ([a.shape for a in accs], shape), wit)
      return
    if not all(np.all(np.isfinite(a)) for a in accs) or not np.all(np.isfinite(u)):
      rec.violation("non-finite", "non-finite accumulator or update at step %d" % t, wit)
      return
    mn = None
    for i, a in enumerate(accs):
      sh = [1] * len(shape)
      sh[i] = shape[i]
      e = a.reshape(sh) * np.ones(shape)
      mn = e if mn is None else np.minimum(mn, e)
    rec.count("cover_checked", int(nu.size))
    slack = nu * (2.0 ** -5 if bf16 else 1e-5) + 1e-37   # bfloat16: w2, g*g and their product are each rounded to 8 bits
    if np.any(mn < nu - slack):
      i = np.unravel_index(np.argmax(nu - mn), shape)
      rec.violation("cover", "step %d coord %s: min accumulator %.6g < exact second moment %.6g" % (
          t, i, mn[i], nu[i]), wit)
      return
    with np.errstate(divide="ignore", invalid="ignore"):
      rec.maxi("nu_over_minacc", float(np.max(np.where(mn > 0, nu / np.where(mn > 0, mn, 1), 0))))
    if b2 == 1.0:
      rec.count("monotone_checked")
      for a, pa in zip(accs, prev_acc):
        if np.any(a < pa):
          rec.violation("monotone", "accumulator decreased at step %d with beta2=1" % t, wit)
          return
    prev_acc = accs
    if bf16:
      continue
    # recover pre-momentum preconditioned gradient
    pg = (-u / lr - wd * p0.astype(np.float64) - b1 * m_pre) / wm
    ada = np.abs(g64) / np.sqrt(nu + eps)
    mag = np.abs(u / lr) + wd * np.abs(p0) + b1 * np.abs(m_pre)
    tol = ada * 1e-5 + mag * 4e-7 / wm + 1e-37
    rec.count("step_bound_checked", int(nu.size))
    if np.any(np.abs(pg) > ada + tol):
      i = np.unravel_index(np.argmax(np.abs(pg) - ada - tol), shape)
      rec.violation("step-larger-than-adagrad", "step %d coord %s: |sm3 step| %.6g > AdaGrad/RMSProp step %.6g" % (
          t, i, abs(pg[i]), ada[i]), wit)
      return
    # the momentum stored in the state advances by the (bounded) preconditioned gradient only: weight decay and the
    # learning rate must not leak into it (they would be re-applied, scaled by beta1, on every later step)
    m_post = np.asarray(st.stats["w"].diagonal_momentum.to_float(), np.float64)
    inc = m_post - b1 * m_pre
    qb = np.max(np.abs(m_post), axis=0) / 127.0 * 0.52 + 1e-30 if m_post.ndim >= 1 else 0.0
    rec.count("momentum_increment_checked", int(nu.size))
    if np.any(np.abs(inc) > wm * ada * (1 + 1e-5) + qb + tol):
      i = np.unravel_index(np.argmax(np.abs(inc) - wm * ada - qb), shape)
      rec.violation("momentum-increment-exceeds-step", "step %d coord %s: stored momentum advanced by %.6g, more than the AdaGrad/RMSProp step %.6g allows (weight decay %.3g, beta1 %.3g)" % (
          t, i, abs(inc[i]), wm * ada[i], wd, b1), wit)
      return
    if len(shape) == 1:
      rec.count("rank1_equality_checked", int(nu.size))
      if np.any(np.abs(np.abs(pg) - ada) > tol + ada * 1e-5):
        i = int(np.argmax(np.abs(np.abs(pg) - ada)))
        rec.violation("rank1-not-adagrad", "step %d coord %d: |sm3 step| %.8g != diagonal step %.8g" % (
            t, i, abs(pg[i]), ada[i]), wit)
        return
      if np.any(np.abs(accs[0] - nu) > nu * 1e-5 + 1e-37):
        rec.violation("rank1-accumulator", "rank-1 accumulator differs from exact second moment at step %d" % t, wit)
        return


def run(spec, rec):
  rng = util.rng_for(spec["seed"], PROPERTY, spec["name"])
  for i in range(spec["n"]):
    if time.time() > rec.deadline:
      rec.count("dropped_for_budget", spec["n"] - i)
      break
    check_case(gen_case(rng), rec)


def replay(witness, rec):
  check_case(util.dec(witness), rec)
