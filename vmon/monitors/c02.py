"""C02 — Distributed Shampoo update equals the documented blocked-Shampoo math.

Observed: every transition (state_t, grads_t, params) -> (update_t, state_t+1)
of distributed_shampoo through the public API, in replicated-jit, pmap-
quantized and sharded modes (x64 on, float32 trees).
Oracle: step-wise conformance with the independent float64 reference
transition (vmon.refmodels.ds_ref) applied to the *real* pre-state, each stage
with its own running floating-point error bound.
"""
import time

import numpy as np

from vmon import dsharness as H
from vmon import dswork as W
from vmon import util
from vmon.refmodels import ds_ref as R
from vmon.refmodels import roots as RT

PROPERTY = "C02"
LEVEL = "exploration"
RULE = ("random accepted configurations (7 graft types, beta1, beta2 incl. 1, nesterov, moving-average momentum, weight decay "
        "x decoupling, lr decoupling x {constant, halving schedule}, block size {2,3,4,8}, merge limit {1,4,6,16,4096} x best-effort "
        "on/off, preconditioner type (3), exponent override {0,2,3}, start step 0..3, statistics/preconditioner intervals 1..3, "
        "skip thresholds, eps {1e-2,1e-3,1e-6} relative/absolute, Newton/eigh, RMSProp clipping) x trees of 1-3 leaves of rank "
        "0-4 incl. unit dims x histories of T=6 (thorough 12) steps from {scale-varying 1e-2..1e2, repeated, zero-steps, low-rank, entry-sparse with exact zeros} "
        "x modes {jit, pmap+int16/int8 quantised, sharded on a 2-device mesh}.  One case = one (config, tree, history, mode); "
        "evaluations counts transitions; non-trivial = case with >=1 post-warm-up transition on a preconditioned leaf; distinct by hash")
ASSUMPTIONS = [
    "comparison is per transition on the real pre-state (float32 cast exactly to float64), so rounding does not compound",
    "tolerances are componentwise forward error bounds (gamma_k|P||g| etc., safety factor 8) computed by the reference",
    "root stage: stored root must satisfy the C01 residual oracle against the post-step statistics; skipped-ambiguous unless lambda_min(S+dI) >= d/2 and kappa <= 1e6",
]
DECIDING = ["transitions", "stats_checked", "update_checked", "momentum_checked", "roots_residual_checked", "post_warmup_transitions"]
MIN_NONTRIVIAL = 20
MAX_SKIP_FRACTION = 0.35
TIMEOUT = {"quick": 1500, "thorough": 7200}
FAMS = ["scales", "scales", "repeated", "zeros", "lowrank", "sparse"]


def shards(tier, seed):
  n = 16 if tier == "quick" else 250
  return [{"name": "s%d" % i, "env": {"x64": True, "devices": 2}, "n": n,
           "budget_s": 1000 if tier == "quick" else 6000} for i in range(16)]


def gen_case(rng, tier="quick"):
  cfg = W.gen_cfg(rng)
  tree = W.gen_tree(rng)
  mode = str(rng.choice(["jit", "jit", "jit", "pmapq", "sharded"]))
  c = {"cfg": cfg, "tree": tree, "mode": mode, "T": 6 if tier == "quick" else int(rng.choice([6, 12])),
       "family": FAMS[int(rng.integers(0, len(FAMS)))], "hseed": int(rng.integers(0, 2 ** 31))}
  # generate_training_metrics=False: the reported errors are not observable; everything else must hold all the same, and a
  # replaced preconditioner is held to the acceptance threshold itself
  c["nm"] = bool(rng.random() < 0.2)
  return c


def materialize(case):
  if "grads" in case:
    return ({k: np.asarray(v, np.float32) for k, v in case["params"].items()},
            [{k: np.asarray(v, np.float32) for k, v in g.items()} for g in case["grads"]])
  rng = np.random.default_rng(case["hseed"])
  params = W.gen_params(rng, case["tree"])
  hist = W.gen_history(rng, case["tree"], case["T"], case["family"])
  return params, hist


def _within(a, ref, bound, extra=0.0):
  a = np.asarray(a, np.float64)
  d = np.abs(a - ref)
  tol = bound + extra
  bad = d > tol
  ratio = float(np.max(d / np.maximum(tol, 1e-300))) if a.size else 0.0
  return (not np.any(bad)), ratio


def root_check(cfg, S, P, err, retries, max_ev, p, max_size, quantized, rec):
  """C01-style residual of the stored root against the stored statistics.
  Returns None (ok / skipped) or a message."""
  n = S.shape[0]
  lam = np.linalg.eigvalsh((S + S.T) / 2)
  if cfg.relative_matrix_epsilon:
    base = RT.power_iteration_replica(S, max_size, tol=1e-6)
    if not cfg.eigh and max_ev is not None and abs(max_ev - base) > 2e-7 * abs(base) + 1e-37:
      rec.count("replica_disagrees_with_reported_maxev")
      base = float(max_ev)
  else:
    base = 1.0
  d = R.ridge(cfg, base, retries)
  lmin = lam[0] + d
  kappa = (lam[-1] + d) / max(lmin, 1e-300)
  if lmin < d / 2 or kappa > 1e6 or kappa < 0:
    rec.count("roots_skipped_ambiguous")
    return None
  res = RT.residual(P, S, d, p)
  slack = 64 * n * p * R.U32 * kappa + err * 2.0 ** -22 + 4e-7
  if quantized:
    off = P - np.diag(np.diag(P))
    bucket = np.maximum(np.max(np.abs(off), axis=0), 2.0 ** -23 * np.abs(np.diag(P))) / 32767.0 if n > 1 else np.zeros(1)
    dx = 0.5 * float(np.max(bucket)) * n
    slack += p * dx * np.linalg.norm(P, 2) ** (p - 1) * (lam[-1] + d) * 1.5
  rec.count("roots_residual_checked")
  rec.maxi("root_res_minus_err_over_slack", (res - err) / slack)
  if res > err + slack:
    return "stored root of a %dx%d statistic has residual max|X^p(S+dI)-I| = %.3g > reported error %.3g + slack %.3g (p=%d, kappa=%.3g)" % (n, n, res, err, slack, p, kappa)
  return None


def root_check_unknown_retries(cfg, S, P, err, max_ev, p, max_size, quantized, rec):
  """Without training metrics the number of ridge escalations (x10 per Newton retry, at most 6 attempts) is not observable:
  the stored root must be the documented root for one of the possible ridges."""
  msg = None
  for retries in range(1, 7):
    msg = root_check(cfg, S, P, err, float(retries), max_ev, p, max_size, quantized, rec)
    if msg is None:
      if retries > 1:
        rec.count("roots_matched_with_escalated_ridge")
      return None
    if cfg.eigh:
      break
  return msg


def check_case(case, rec):
  cfgd, tree, mode = case["cfg"], case["tree"], case["mode"]
  params, hist = materialize(case)
  cfg = R.Cfg(**{k: (tuple(v) if k == "lr_schedule" and v else v) for k, v in cfgd.items()})
  wit = dict(case, params=params, grads=hist)
  D = 2 if mode == "sharded" else 1
  nm = bool(case.get("nm"))
  if nm:
    rec.count("cases_without_training_metrics")
  try:
    run = H.Runner(dict(cfgd, generate_training_metrics=False) if nm else cfgd, params, mode, D)
  except Exception as e:  # pylint: disable=broad-except
    kind, where = H.classify_exception(e)
    if kind == "reject":
      rec.skip("rejected:" + where)
    else:
      rec.violation("crash:" + where, "init raised %s: %s" % (type(e).__name__, str(e)[:200]), wit)
    return
  keys = sorted(tree)
  sizes = {k: R.stat_sizes(cfg, tuple(tree[k])) for k in keys}
  all_sizes = [s for k in keys for s in sizes[k]]
  max_size = max(all_sizes) if all_sizes else 0
  thr = cfg.inverse_failure_threshold
  nontrivial = False
  sample = {"cfg": cfgd, "tree": tree, "mode": mode, "family": case["family"]}
  for t, g in enumerate(hist):
    pre = run.view()
    try:
      u, _ = run.step(g)
    except Exception as e:  # pylint: disable=broad-except
      kind, where = H.classify_exception(e)
      if kind == "reject":
        rec.skip("rejected:" + where)
      else:
        rec.violation("crash:" + where, "update raised %s at step %d: %s" % (type(e).__name__, t, str(e)[:200]), wit)
      return
    post = run.view()
    un = run.updates_np(u)
    rec.count("transitions")
    rec.count("transitions_" + mode)
    if post["count"] != pre["count"] + 1 or pre["count"] != t:
      rec.violation("count", "count %d -> %d at step %d" % (pre["count"], post["count"], t), wit)
      return
    refresh = (t % cfg.preconditioning_compute_steps == 0)
    for k in keys:
      shape = tuple(tree[k])
      a, b = pre["params"][k], post["params"][k]
      if len(b["stats"]) != len(sizes[k]) or [s.shape[0] for s in b["stats"]] != sizes[k]:
        rec.violation("statistics-layout", "leaf %s %s: statistics sizes %s, documented %s" % (k, shape, [s.shape[0] for s in b["stats"]], sizes[k]), wit)
        return
      skipped = R.skip(cfg, shape)
      # ---- (a) statistics
      if not skipped and sizes[k]:
        exp = R.expected_stats(cfg, shape, g[k], a["stats"], t)
        for i, (val, bound) in enumerate(exp):
          rec.count("stats_checked")
          if bound is None:
            if b["stats_bits"][i] != a["stats_bits"][i]:
              rec.violation("statistics-changed-off-schedule", "leaf %s stat %d changed at step %d (interval %d)" % (k, i, t, cfg.statistics_compute_steps), wit)
              return
            continue
          extra = 0.0
          if mode == "pmapq":
            # int16 buckets are per column of the matrix minus its diagonal.  XLA may compute `x - diag(diag(x))` with the
            # two x's rounded differently (FMA contraction in one fusion only), leaving one ulp of the diagonal entry in
            # the column, so the bucket is max(max|off column|, ulp(diagonal entry)) / 32767
            off = val - np.diag(np.diag(val))
            colmax = np.maximum(np.max(np.abs(off), axis=0), 2.0 ** -23 * np.abs(np.diag(val)))
            extra = (colmax / 32767.0 * 0.52 + 1e-30)[None, :] * (1 - np.eye(val.shape[0]))
          ok, ratio = _within(b["stats"][i], val, bound, extra)
          rec.maxi("stats_err_over_bound", ratio)
          if not ok:
            rec.violation("statistics-recurrence", "leaf %s %s stat %d at step %d differs from b2*S+(1-b2|1)*G G^T by %.3g x bound" % (k, shape, i, t, ratio), wit)
            return
        # ---- (b) roots / acceptance gate
        ts = R.tshape(cfg, shape)
        p = R.exponent(cfg, len(ts))
        m = b["metrics"]
        for i in range(len(sizes[k])):
          changed = b["precs_bits"][i] != a["precs_bits"][i]
          if not refresh:
            if changed:
              rec.violation("preconditioner-changed-off-schedule", "leaf %s preconditioner %d changed at non-refresh step %d" % (k, i, t), wit)
              return
            continue
          if nm:
            if changed:
              rec.count("roots_replaced_without_metrics")
              msg = root_check_unknown_retries(cfg, b["stats"][i], b["precs"][i], thr, None, p, max_size, mode == "pmapq", rec)
              if msg:
                rec.violation("root-not-documented-power", "leaf %s %s step %d (no training metrics; error taken as the threshold): %s" % (k, shape, t, msg), wit)
                return
            continue
          err = float(m["errors"][i])
          accepted = (err == err) and err < thr
          if not accepted:
            rec.count("roots_rejected")
            if changed:
              rec.violation("rejected-root-installed", "leaf %s preconditioner %d replaced although error %g >= threshold %g" % (k, i, err, thr), wit)
              return
            continue
          rec.count("roots_accepted")
          msg = root_check(cfg, b["stats"][i], b["precs"][i], err, float(m["retries"][i]), float(m["max_ev"][i]), p, max_size, mode == "pmapq", rec)
          if msg:
            rec.violation("root-not-documented-power", "leaf %s %s step %d: %s" % (k, shape, t, msg), wit)
            return
      # ---- (c) update, (d) momenta
      used = a["precs"] if mode == "sharded" else b["precs"]
      ds0 = a["diag_stats"] if a["diag_stats"] is not None else 0.0
      ex = R.expected_update(cfg, shape, g[k], params[k], t, used, ds0, a["mom"], a["diag_mom"])
      rec.count("update_checked")
      if un[k].shape != shape or str(un[k].dtype) != "float32":
        rec.violation("update-shape", "update for %s has shape %s dtype %s" % (k, un[k].shape, un[k].dtype), wit)
        return
      def _score(e):
        o1, r1 = _within(un[k], e["update"], e["e_update"])
        extra = 0.0
        if str(getattr(b["mom_q"], "quantized_dtype", "")).find("int8") >= 0 and np.ndim(e["mom_shampoo"]) >= 1:
          extra = (np.max(np.abs(e["mom_shampoo"]), axis=0) / 127.0 * 0.52)[None, ...] + np.max(e["e_mom_shampoo"], axis=0)[None, ...] / 2
        _, r2 = _within(b["mom"], e["mom_shampoo"], e["e_mom_shampoo"], extra)
        return o1, r1, max(r1, r2)
      ok, ratio, sc = _score(ex)
      if sc > 1.0 and used:
        # stored preconditioners are symmetric only up to rounding / per-column quantisation; an implementation
        # may contract either index, so the reference accepts the transposed application as well
        ex_t = R.expected_update(cfg, shape, g[k], params[k], t, [np.asarray(p_).T for p_ in used], ds0, a["mom"], a["diag_mom"])
        ok_t, ratio_t, sc_t = _score(ex_t)
        if sc_t <= 1.0:
          rec.count("matched_transposed_application")
          ex, ok, ratio = ex_t, ok_t, ratio_t
      rec.maxi("update_err_over_bound", ratio)
      if ex["run"] and not skipped and sizes[k]:
        nontrivial = True
        rec.count("post_warmup_transitions")
      if not ok:
        stage = "preconditioned" if ex["run"] else "warm-up"
        rec.violation("update-mismatch:" + stage, "leaf %s %s step %d (%s, graft %d, mode %s): update differs from documented math by %.3g x bound; max|u|=%.3g max|ref|=%.3g" % (
            k, shape, t, stage, cfg.graft_type, mode, ratio, np.max(np.abs(un[k])) if un[k].size else 0, np.max(np.abs(ex["update"])) if un[k].size else 0), wit)
        return
      rec.count("momentum_checked")
      for name, ref, eb in (("mom", ex["mom_shampoo"], ex["e_mom_shampoo"]), ("diag_mom", ex["mom_graft"], ex["e_mom_graft"])):
        extra = 0.0
        if str(getattr(b[name + "_q"], "quantized_dtype", "")) .find("int8") >= 0 and np.ndim(ref) >= 1:
          extra = (np.max(np.abs(ref), axis=0) / 127.0 * 0.52)[None, ...] + np.max(eb, axis=0)[None, ...] / 2
        ok, ratio = _within(b[name], ref, eb, extra)
        rec.maxi("momentum_err_over_bound", ratio)
        if not ok:
          rec.violation("momentum-mismatch:" + name, "leaf %s step %d: stored %s differs from documented momentum by %.3g x bound" % (k, t, name, ratio), wit)
          return
      if ex["diag_stats"] is not None:
        rec.count("diag_stats_checked")
        eb = np.abs(ex["diag_stats"]) * (R.SAFETY * (2 * (np.size(ex["diag_stats"]) + 8) + 6) * R.U32) + 1e-44
        ok, ratio = _within(b["diag_stats"], ex["diag_stats"], eb)
        if not ok:
          rec.violation("diagonal-statistics", "leaf %s step %d: grafting accumulator differs from documented recurrence by %.3g x bound" % (k, t, ratio), wit)
          return
  rec.case(util.key_hash({k: case.get(k) for k in ("cfg", "tree", "mode", "family", "hseed", "T", "nm")}), nontrivial, sample=sample)
  rec.count("cases_" + mode)
  rec.count("graft_%d" % cfg.graft_type)


def run(spec, rec):
  rng = util.rng_for(spec["seed"], PROPERTY, spec["name"])
  for i in range(spec["n"]):
    if i % 8 == 7:
      util.release_compiled_code()
    if time.time() > rec.deadline:
      rec.count("dropped_for_budget", spec["n"] - i)
      break
    check_case(gen_case(rng, spec.get("tier", "quick")), rec)


def replay(witness, rec):
  check_case(util.dec(witness), rec)
