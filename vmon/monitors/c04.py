"""C04 — statistics/preconditioner refresh and warm-up follow the configured schedule.

Observed: bitwise diffs of successive optimizer states (statistics,
preconditioners, their diagnostics, count) and the updates, through the public
API of distributed_shampoo (jit / pmap-quantised / sharded / lr-scheduled
interval), Tearfree Shampoo, Tearfree Sketchy and the grafting wrapper.
Oracle: explicit schedule automaton `allowed(t)` and `required(t)` computed in
Python from the configuration; root freshness = residual of the stored root
against the statistics stored in the same state; warm-up = reference update of
the graft-only / preconditioned path (vmon.refmodels.ds_ref).
"""
import itertools
import math
import time

import numpy as np

from vmon import dsharness as H
from vmon import util
from vmon.monitors import c02
from vmon.refmodels import ds_ref as R

PROPERTY = "C04"
LEVEL = "exploration"
RULE = ("grid, walked completely: distributed_shampoo (statistics interval s, preconditioner interval p) in {1..3}^2 (thorough {1..5}^2) x start "
        "step {0,1,2,5} (thorough 0..6) x modes {jit, pmap int16-quantised, sharded 2-device mesh}, T = max(2*lcm(s,p), start+4) <= 24 steps; "
        "lr-scheduled interval: end steps {20,40} x halving every {2,3} x 3 modes, T=44; Tearfree Shampoo (stat freq, precond freq) in "
        "{1..3}^2 x start {0,2}; Tearfree Sketchy update_freq 1..4 x start {0,2}. evaluations = transitions observed; a configuration is "
        "non-trivial when it has both refresh and non-refresh steps or a warm-up switch; distinct by configuration")
ASSUMPTIONS = ["histories change the statistics by a large factor every statistics step (beta2=0.5, alternating gradient scale) and keep kappa<=100 so a stale root is visible (x64 on)",
               "lr schedules use power-of-two ratios so float32 and Python evaluate the documented interval formula identically"]
DECIDING = ["transitions", "off_schedule_steps_checked", "stat_refreshes_seen", "precond_refreshes_seen", "freshness_checked",
            "warmup_updates_checked", "post_warmup_updates_checked", "tearfree_transitions", "sketchy_transitions", "scheduled_interval_switches"]
MIN_NONTRIVIAL = 20
TIMEOUT = {"quick": 1500, "thorough": 7200}
TREE = {"a": [4, 3], "b": [5]}


def exhaustive(tier, counters):
  return counters.get("dropped_for_budget", 0) == 0


def all_configs(tier):
  rng_s = [1, 2, 3] if tier == "quick" else [1, 2, 3, 4, 5]
  starts = [0, 1, 2, 5] if tier == "quick" else [0, 1, 2, 3, 4, 5, 6]
  out = []
  for mode, s, p, st in itertools.product(["jit", "pmapq", "sharded"], rng_s, rng_s, starts):
    out.append({"kind": "ds", "mode": mode, "s": s, "p": p, "start": st})
  for mode, E, every in itertools.product(["jit", "pmapq", "sharded"], [20, 40], [2, 3]):
    out.append({"kind": "ds_sched", "mode": mode, "E": E, "every": every, "start": 1})
  for sf, pf, st in itertools.product(rng_s, rng_s, [0, 2]):
    out.append({"kind": "tf_shampoo", "s": sf, "p": pf, "start": st})
  for f, st in itertools.product([1, 2, 3, 4] if tier == "quick" else [1, 2, 3, 4, 5, 6], [0, 2]):
    out.append({"kind": "tf_sketchy", "s": f, "start": st})
    if st == 0:
      out.append({"kind": "tf_sketchy", "s": f, "start": st, "ekfac": True})
      out.append({"kind": "tf_sketchy", "s": f, "start": st, "add_ggt": True})
  return out


def shards(tier, seed):
  cfgs = all_configs(tier)
  out = []
  x64 = [c for c in cfgs if c["kind"] != "tf_sketchy"]
  x32 = [c for c in cfgs if c["kind"] == "tf_sketchy"]
  for i in range(15):
    out.append({"name": "g%d" % i, "env": {"x64": True, "devices": 2}, "configs": x64[i::15],
                "budget_s": 1200 if tier == "quick" else 6500})
  out.append({"name": "sketchy", "env": {"x64": False, "devices": 1}, "configs": x32,
              "budget_s": 1200 if tier == "quick" else 6500})
  return out


def history(T, seed):
  rng = np.random.default_rng([seed, 4])
  hist = []
  for t in range(T):
    sc = [1.0, 4.0, 0.3, 6.0, 0.5, 3.0, 0.2][t % 7]
    hist.append({k: np.asarray(rng.standard_normal(tuple(s)) * sc, np.float32) for k, s in TREE.items()})
  return hist


# ------------------------------------------------------------------ distributed shampoo
def run_ds(c, seed, rec):
  sched = c["kind"] == "ds_sched"
  if sched:
    cfgd = dict(block_size=8, graft_type=1, start_preconditioning_step=c["start"], merge_small_dims_block_size=1,
                matrix_epsilon=1e-2, beta2=0.5, statistics_compute_steps=1, preconditioning_compute_steps=1,
                decay_preconditioning_compute_steps=True, end_preconditioning_compute_steps=c["E"],
                lr_schedule=["halving", 0.5, c["every"]])
    T = 44
  else:
    cfgd = dict(block_size=8, graft_type=1, start_preconditioning_step=c["start"], merge_small_dims_block_size=1,
                matrix_epsilon=1e-2, beta2=0.5, statistics_compute_steps=c["s"], preconditioning_compute_steps=c["p"],
                # a non-zero (coupled) weight decay under the default Nesterov momentum: the warm-up update must be the
                # grafting optimizer's complete step, decay term included
                learning_rate=0.1, weight_decay=0.01)
    T = min(24, max(2 * math.lcm(c["s"], c["p"]), c["start"] + 4))
  cfg = R.Cfg(**{k: (tuple(v) if k == "lr_schedule" else v) for k, v in cfgd.items()
                 if k not in ("decay_preconditioning_compute_steps", "end_preconditioning_compute_steps")})
  params = {k: np.asarray(np.random.default_rng([seed, 1]).standard_normal(tuple(s)), np.float32) for k, s in TREE.items()}
  hist = history(T, seed)
  wit = {"config": c, "seed": seed}
  run = H.Runner(cfgd, params, c["mode"], 2 if c["mode"] == "sharded" else 1)
  max_size = 5
  stats_dirty = {k: True for k in TREE}      # statistics changed since last refresh
  last_interval = None
  pattern = []
  for t in range(T):
    pre = run.view()
    u, _ = run.step(hist[t])
    post = run.view()
    un = run.updates_np(u)
    rec.count("transitions")
    rec.count("transitions_" + c["mode"])
    if post["count"] != pre["count"] + 1 or pre["count"] != t:
      rec.violation("count", "count %d -> %d at step %d" % (pre["count"], post["count"], t), wit)
      return
    interval = R.sched_interval(cfg, t, c["E"]) if sched else c["p"]
    if sched and last_interval is not None and interval != last_interval:
      rec.count("scheduled_interval_switches")
    last_interval = interval
    stat_step = (t % cfg.statistics_compute_steps == 0)
    refresh = (t % interval == 0)
    tag = ""
    for k in sorted(TREE):
      a, b = pre["params"][k], post["params"][k]
      s_ch = [x != y for x, y in zip(a["stats_bits"], b["stats_bits"])]
      p_ch = [x != y for x, y in zip(a["precs_bits"], b["precs_bits"])]
      m_ch = a["metrics"]["bits"] != b["metrics"]["bits"]
      tag += ("S" if any(s_ch) else "-") + ("P" if any(p_ch) else "-") + ("M" if m_ch else "-")
      if not stat_step:
        rec.count("off_schedule_steps_checked")
        if any(s_ch):
          rec.violation("statistics-off-schedule:" + c["mode"], "statistics of %s changed at step %d, interval %d" % (k, t, cfg.statistics_compute_steps), wit)
          return
      else:
        rec.count("stat_refreshes_seen")
        if not all(s_ch):
          rec.violation("statistics-not-refreshed:" + c["mode"], "statistics of %s unchanged at statistics step %d (non-zero gradient)" % (k, t), wit)
          return
        stats_dirty[k] = True
      if not refresh:
        rec.count("off_schedule_steps_checked")
        if any(p_ch) or m_ch:
          rec.violation("preconditioner-off-schedule:" + c["mode"], "%s of %s changed at step %d, interval %d" % (
              "preconditioner" if any(p_ch) else "diagnostics", k, t, interval), wit)
          return
      else:
        rec.count("precond_refreshes_seen")
        errs = b["metrics"]["errors"]
        acc = [(e == e) and e < cfg.inverse_failure_threshold for e in errs]
        if stats_dirty[k] and all(acc) and not all(p_ch):
          rec.violation("preconditioner-not-refreshed:" + c["mode"], "preconditioners of %s unchanged at refresh step %d although statistics changed and errors %s are accepted" % (k, t, list(errs)), wit)
          return
        # freshness: a verified root of the statistics current at this step
        ts = R.tshape(cfg, tuple(TREE[k]))
        pexp = R.exponent(cfg, len(ts))
        for i in range(len(b["precs"])):
          if not acc[i]:
            continue
          msg = c02.root_check(cfg, b["stats"][i], b["precs"][i], float(errs[i]), float(b["metrics"]["retries"][i]),
                               float(b["metrics"]["max_ev"][i]), pexp, max_size, c["mode"] == "pmapq", rec)
          rec.count("freshness_checked")
          if msg:
            rec.violation("stale-or-wrong-root:" + c["mode"], "refresh step %d, %s[%d]: %s" % (t, k, i, msg), wit)
            return
          # sensitivity: would the root of the pre-step statistics have passed?
          if stats_dirty[k] and t > 0:
            stale = c02.root_check(cfg, b["stats"][i], a["precs"][i], float(errs[i]), float(b["metrics"]["retries"][i]),
                                   float(b["metrics"]["max_ev"][i]), pexp, max_size, c["mode"] == "pmapq", _Null())
            if stale:
              rec.count("stale_root_would_be_detected")
        stats_dirty[k] = False
      # warm-up / preconditioned update
      used = a["precs"] if c["mode"] == "sharded" else b["precs"]
      ex = R.expected_update(cfg, tuple(TREE[k]), hist[t][k], params[k], t, used, 0.0, a["mom"], a["diag_mom"])
      ok, ratio = c02._within(un[k], ex["update"], ex["e_update"])
      rec.count("post_warmup_updates_checked" if ex["run"] else "warmup_updates_checked")
      rec.maxi("update_err_over_bound", ratio)
      if not ok:
        rec.violation(("update-ignores-warmup-switch:" if True else "") + c["mode"],
                      "step %d (start %d): update of %s is not the %s update (%.3g x bound)" % (
                          t, c["start"], k, "preconditioned" if ex["run"] else "grafting-momentum", ratio), wit)
        return
      if ex["run"]:
        other = R.expected_update(cfg, tuple(TREE[k]), hist[t][k], params[k], -1, used, 0.0, a["mom"], a["diag_mom"])
        if np.any(np.abs(other["update"] - ex["update"]) > ex["e_update"] + other["e_update"]):
          rec.count("post_warmup_update_differs_from_graft_only")
    pattern.append(tag)
  nontrivial = sched or c["s"] > 1 or c["p"] > 1 or c["start"] > 0
  rec.case(util.key_hash(c), nontrivial, sample={"config": c, "observed_change_pattern(S,P,M per leaf)": pattern[:12]})


class _Null:
  def count(self, *a, **k):
    pass

  def maxi(self, *a, **k):
    pass


# ------------------------------------------------------------------ tearfree
def _bits(tree):
  import jax
  return [np.asarray(x).tobytes() for x in jax.tree.leaves(tree)]


def run_tf(c, seed, rec):
  import contextlib
  import io
  import jax
  import jax.numpy as jnp
  from precondition.tearfree import grafting, momentum, optimizer as tfo, second_order, shampoo as tshampoo, sketchy
  sk = c["kind"] == "tf_sketchy"
  wit = {"config": c, "seed": seed}
  if sk:
    so = second_order.Options(merge_dims=2, second_order_type=second_order.SecondOrderType.SKETCHY, shampoo_options=None,
                              sketchy_options=sketchy.Options(rank=2, update_freq=c["s"], second_moment_decay=0.9,
                                                              ekfac_svd=bool(c.get("ekfac")), add_ggt=bool(c.get("add_ggt"))))
  else:
    so = second_order.Options(merge_dims=2, shampoo_options=tshampoo.Options(
        block_size=4, update_statistics_freq=c["s"], update_preconditioners_freq=c["p"], second_moment_decay=0.5))
  opts = tfo.TearfreeOptions(
      grafting_options=grafting.Options(grafting_type=grafting.GraftingType.SGD, second_moment_decay=0.0,
                                        start_preconditioning_step=c["start"], skip_preconditioning_rank1=False),
      second_order_options=so,
      momentum_options=momentum.Options(momentum_decay=0.0, weight_decay=0.0))
  tree = {"a": [4, 3], "b": [8, 2]}
  rng = np.random.default_rng([seed, 7])
  params = {k: jnp.asarray(rng.standard_normal(tuple(s)), jnp.float32) for k, s in tree.items()}
  with contextlib.redirect_stdout(io.StringIO()):
    opt = tfo.tearfree(1.0, opts)
    st = opt.init(params)
    upd = jax.jit(opt.update)
  p_int = c.get("p", c["s"])
  T = min(24, max(2 * math.lcm(c["s"], p_int), c["start"] + 4))
  pattern = []
  for t in range(T):
    sc = [1.0, 4.0, 0.3, 6.0, 0.5, 3.0, 0.2][t % 7]
    g = {k: jnp.asarray(rng.standard_normal(tuple(s)) * sc, jnp.float32) for k, s in tree.items()}
    with contextlib.redirect_stdout(io.StringIO()):
      u, st2 = upd(g, st, params)
    rec.count("transitions")
    rec.count("sketchy_transitions" if sk else "tearfree_transitions")
    gs0, gs1 = st[0], st2[0]          # GraftingState
    if int(gs1.count) != int(gs0.count) + 1 or int(gs0.count) != t:
      rec.violation("grafting-count", "grafting count %d -> %d at step %d" % (int(gs0.count), int(gs1.count), t), wit)
      return
    so0, so1 = gs0.direction[1], gs1.direction[1]       # second-order state inside the merge/precond/unmerge chain
    if int(so1.count) != int(so0.count) + 1 or int(so0.count) != t:
      rec.violation("second-order-count", "second-order count %d -> %d at step %d" % (int(so0.count), int(so1.count), t), wit)
      return
    if sk:
      # the sketch proper (directions, eigenvalues, escaped mass and their inverse roots); with ekfac_svd the per-step
      # SVD buffers legitimately change every step, the sketch itself must not
      def sketch_fields(st_):
        out_ = []
        for leaf in jax.tree.leaves(st_.sketches, is_leaf=lambda x: isinstance(x, sketchy._AxisState)):
          out_.extend(np.asarray(getattr(leaf, f_)).tobytes() for f_ in ("eigvecs", "eigvals", "inv_eigvals", "tail", "inv_tail"))
          if hasattr(leaf.ema_ggt, "shape"):
            out_.append(np.asarray(leaf.ema_ggt).tobytes())      # the dense second-moment statistic kept with add_ggt
        return out_
      ch = sketch_fields(so0) != sketch_fields(so1)
      due = (t % c["s"] == 0)
      pattern.append("K" if ch else "-")
      if ch and not due:
        rec.violation("sketch-off-schedule", "sketch changed at step %d, update_freq %d" % (t, c["s"]), wit)
        return
      if due and not ch:
        rec.violation("sketch-not-refreshed", "sketch unchanged at update step %d" % t, wit)
        return
      rec.count("off_schedule_steps_checked" if not due else "stat_refreshes_seen")
    else:
      is_blk = lambda x: isinstance(x, tshampoo._AxesBlocks)
      b0 = jax.tree.leaves(so0.blocks, is_leaf=is_blk)
      b1 = jax.tree.leaves(so1.blocks, is_leaf=is_blk)
      sdue, pdue = (t % c["s"] == 0), (t % c["p"] == 0)
      tag = ""
      for x, y in zip(b0, b1):
        s_ch = _bits(x.stats) != _bits(y.stats)
        r_ch = _bits(x.roots) != _bits(y.roots)
        tag += ("S" if s_ch else "-") + ("P" if r_ch else "-")
        if s_ch and not sdue:
          rec.violation("tf-statistics-off-schedule", "Tearfree statistics changed at step %d, freq %d" % (t, c["s"]), wit)
          return
        if r_ch and not pdue:
          rec.violation("tf-roots-off-schedule", "Tearfree roots changed at step %d, freq %d" % (t, c["p"]), wit)
          return
        if sdue and not s_ch:
          rec.violation("tf-statistics-not-refreshed", "Tearfree statistics unchanged at statistics step %d" % t, wit)
          return
        rec.count("off_schedule_steps_checked", int(not sdue) + int(not pdue))
        if sdue:
          rec.count("stat_refreshes_seen")
        if pdue:
          rec.count("precond_refreshes_seen")
          # freshness: roots are the inverse 2k-th roots of the statistics stored in the same state
          for S, X in zip(y.stats, y.roots):
            S = np.asarray(S, np.float64)
            X = np.asarray(X, np.float64)
            pexp = 2 * len(y.stats)
            for blk in range(S.shape[0]):
              w = np.linalg.eigvalsh(S[blk])
              if w.min() <= 1e-5 * w.max():
                rec.count("tf_freshness_skipped_rank_deficient")
                continue
              res = np.max(np.abs(np.linalg.matrix_power(X[blk], pexp) @ S[blk] - np.eye(S.shape[1])))
              rec.count("freshness_checked")
              rec.maxi("tf_root_residual_over_1e-6", res / 1e-6)
              if res > 1e-6 * (w.max() / w.min()):
                rec.violation("tf-stale-or-wrong-root", "Tearfree root at refresh step %d does not invert the statistics of that step (residual %.3g)" % (t, res), wit)
                return
      pattern.append(tag)
    # warm-up switch (SGD graft, no momentum, lr 1): update == -g before start, differs after
    for k in tree:
      uk, gk = np.asarray(u[k], np.float64), np.asarray(g[k], np.float64)
      if t < c["start"]:
        rec.count("warmup_updates_checked")
        if not np.allclose(uk, -gk, rtol=1e-6, atol=0):
          rec.violation("tf-warmup-not-graft", "Tearfree update before start step %d is not the grafting step" % c["start"], wit)
          return
      else:
        rec.count("post_warmup_updates_checked")
        if abs(np.linalg.norm(uk) / np.linalg.norm(gk) - 1) > 1e-4:
          rec.violation("tf-graft-norm", "Tearfree update norm differs from the grafting norm after start", wit)
          return
        if t > 0 and not np.allclose(uk, -gk, rtol=1e-3, atol=0):
          rec.count("post_warmup_update_differs_from_graft_only")
    st = st2
  rec.case(util.key_hash(c), c["s"] > 1 or c.get("p", 1) > 1 or c["start"] > 0, sample={"config": c, "observed_change_pattern": pattern[:12]})


def run_config(c, seed, rec):
  wit = {"config": c, "seed": seed}
  try:
    if c["kind"] in ("ds", "ds_sched"):
      run_ds(c, seed, rec)
    else:
      run_tf(c, seed, rec)
  except Exception as e:  # pylint: disable=broad-except
    kind, where = H.classify_exception(e)
    if where.endswith("@?"):
      raise
    rec.violation("crash:" + where, "%s raised %s: %s" % (c, type(e).__name__, str(e)[:200]), wit)


def run(spec, rec):
  for i, c in enumerate(spec["configs"]):
    if time.time() > rec.deadline:
      rec.count("dropped_for_budget", len(spec["configs"]) - i)
      break
    run_config(c, spec["seed"], rec)


def replay(witness, rec):
  w = util.dec(witness)
  run_config(w["config"], w.get("seed", 0), rec)
