"""C08 — block-diagonal semantics: blocks and parameters do not influence each other.

Observed: updates from the public API of distributed_shampoo and Tearfree Shampoo.
Oracle (metamorphic): (1) a blocked tensor vs. the same blocks presented as separate leaves, with
per-block gradient scales spanning 1e-6..1e6: per-block updates equal (grafting off), or parallel with
one positive factor per parameter (grafting on: only the parameter-level norm is shared);
(2) a leaf alone vs. the same leaf with companion leaves of arbitrary shape / scale: equal.
"""
import contextlib
import io
import time

import numpy as np

from vmon import dsharness as H
from vmon import util
from vmon.refmodels import shapes as SH

PROPERTY = "C08"
LEVEL = "exploration"
RULE = ("random cases: distributed_shampoo {x64 on, off} x layouts with 1 or 2 blocked axes and ragged last blocks (e.g. (11,4)/4, (8,6)/4, "
        "(10,7)/4, (6,3,5)/3) x per-block gradient scales 10^U(-6,6) x graft {NONE, SGD, RMSPROP} x Newton/eigh x beta2 x {jit, pmap int16-quantised, 2-device pmap, sharded 2-device mesh} x 5-step histories; "
        "companions: 1-2 extra leaves of rank 1-3 with scale 1e-8..1e8 and larger statistics; Tearfree Shampoo: layouts with dims multiple of the "
        "block (1 or 2 blocked axes) x scales 10^U(-3,3).  evaluations = (block, step) comparisons; non-trivial = case with >= 2 blocks of scale "
        "ratio >= 1e3 or a companion; distinct by hash of the case")
ASSUMPTIONS = ["distributed_shampoo cases use a relative ridge of 1e-4 or 1e-3 (statistics resolve the ridge in float32); equality tolerance 2e-5 relative to the block's own update (float32 paths differ in reduction order); bitwise-equal count reported",
               "with grafting on, blocks of one parameter share a single positive factor (the parameter-level norm ratio), which is fitted and divided out"]
DECIDING = ["block_comparisons", "companion_comparisons", "alone_comparisons", "tf_block_comparisons", "cases_ds_blocks", "cases_ds_companion", "cases_tf"]
MIN_NONTRIVIAL = 30
TIMEOUT = {"quick": 1500, "thorough": 7200}
LAYOUTS = [((11, 4), 4), ((8, 6), 4), ((10, 7), 4), ((6, 3, 5), 3), ((9,), 4), ((12, 3), 4), ((5, 9), 4), ((7, 7), 3),
           # small unblocked leaves: their statistics are smaller than the companion's, so only the companion run pads them
           ((3, 2), 8), ((5, 3), 8), ((2, 3, 2), 8), ((6, 2), 4)]
TF_LAYOUTS = [((12, 3), 4), ((8, 8), 4), ((4, 8), 4), ((6, 2, 3), 3), ((9, 6), 3), ((8,), 4), ((8, 2, 2), 4)]


def shards(tier, seed):
  n = 7 if tier == "quick" else 100
  out = []
  for i in range(7):
    out.append({"name": "ds64_%d" % i, "env": {"x64": True, "devices": 2}, "kind": "ds", "n": n, "budget_s": 1200 if tier == "quick" else 6500})
  for i in range(4):
    out.append({"name": "ds32_%d" % i, "env": {"x64": False, "devices": 2}, "kind": "ds", "n": n, "budget_s": 1200 if tier == "quick" else 6500})
  for i in range(3):
    out.append({"name": "tf64_%d" % i, "env": {"x64": True}, "kind": "tf", "n": n * 2, "budget_s": 1200 if tier == "quick" else 6500})
  for i in range(2):
    out.append({"name": "tf32_%d" % i, "env": {"x64": False}, "kind": "tf", "n": n * 2, "budget_s": 1200 if tier == "quick" else 6500})
  return out


def gen_case(rng, kind):
  if kind == "ds":
    (shape, block) = LAYOUTS[int(rng.integers(0, len(LAYOUTS)))]
    return {"kind": "ds", "shape": list(shape), "block": block, "graft": int(rng.choice([0, 0, 1, 3])), "eigh": bool(rng.integers(0, 2)),
            # relative ridge well above the float32 noise of the statistics (n*2^-24*lambda_max): with an absolute or a
            # tiny ridge the root of a rank-deficient block is decided by rounding noise in ANY arrangement (DESIGN 2.4 rule 4)
            "beta2": float(rng.choice([1.0, 0.9, 0.999])), "eps": float(rng.choice([1e-4, 1e-3])), "rel": True,
            "companion": bool(rng.integers(0, 2)), "T": 5, "hseed": int(rng.integers(0, 2 ** 31)),
            # replicated, pmap with int16-quantised statistics (x64 off only: its roots are float32), sharded (stacked global statistics)
            "mode": str(rng.choice(["jit", "jit", "sharded", "pmapq", "pmap2"])), "skipcomp": bool(rng.random() < 0.3)}
  (shape, block) = TF_LAYOUTS[int(rng.integers(0, len(TF_LAYOUTS)))]
  return {"kind": "tf", "shape": list(shape), "block": block, "decay": float(rng.choice([1.0, 0.9])),
          "companion": bool(rng.integers(0, 2)), "T": 5, "hseed": int(rng.integers(0, 2 ** 31))}


def make_hist(rng, shape, slices, T, lo, hi):
  scales = 10 ** rng.uniform(lo, hi, size=len(slices))
  hist = []
  for _ in range(T):
    g = np.zeros(shape)
    for sl, sc in zip(slices, scales):
      g[sl] = rng.standard_normal(g[sl].shape) * sc
    hist.append(g.astype(np.float32))
  return hist, scales


def run_ds(cfg, trees_hist, T, mode="jit"):
  """trees_hist: dict leaf -> list of T arrays.  Returns list of update dicts."""
  params = {k: np.zeros(v[0].shape, np.float32) for k, v in trees_hist.items()}
  if mode == "pmap2":
    r = H.Runner(cfg, params, "pmap", 2)     # data-parallel over two devices: each replica inverts a slice of the statistics
  else:
    r = H.Runner(cfg, params, mode, 2 if mode == "sharded" else 1)
  outs = []
  for t in range(T):
    u, _ = r.step({k: v[t] for k, v in trees_hist.items()})
    outs.append(r.updates_np(u))
  return outs


def cmp_blocks(a, b, share_factor, rec, label):
  """a, b: lists (per block) of arrays.  Returns (ok, worst relative deviation)."""
  lam = 1.0
  if share_factor:
    num = sum(float(np.vdot(x.astype(np.float64), y.astype(np.float64))) for x, y in zip(a, b))
    den = sum(float(np.vdot(y.astype(np.float64), y.astype(np.float64))) for y in b)
    if den == 0:
      return all(not np.any(x) for x in a), 0.0
    lam = num / den
  worst = 0.0
  for x, y in zip(a, b):
    x64, y64 = x.astype(np.float64), y.astype(np.float64) * lam
    sc = max(np.max(np.abs(y64)), np.max(np.abs(x64)), 1e-300) if x.size else 1.0
    worst = max(worst, float(np.max(np.abs(x64 - y64)) / sc) if x.size else 0.0)
    rec.count(label + "_bitwise_equal" if np.array_equal(x, y) else label + "_not_bitwise")
  return worst, lam


def check_ds(c, rec):
  rng = np.random.default_rng(c["hseed"])
  shape, block = tuple(c["shape"]), c["block"]
  slices = SH.block_slices(shape, block)
  import jax
  # The eigh routine reports an ABSOLUTE eigen-decomposition residual (~ n * u * lambda_max).  In float32 at statistics of scale
  # >= 1e6 that figure is rounding noise of the order of the acceptance threshold (0.1) or far above it, and whether a root is
  # accepted is decided by the noise of the particular batch arrangement (observed: 4598 alone, exactly 0.0 when padded next to a
  # companion).  Block independence cannot be judged where the gate itself is decided by rounding (DESIGN 2.4 rule 4): float32
  # eigh cases keep the leaf's gradient scales <= 10 (residual <= 1e-4), all other cases span 1e-6..1e6.
  hi = 1 if (c["eigh"] and not jax.config.jax_enable_x64) else 6
  hist, scales = make_hist(rng, shape, slices, c["T"], -6, hi)
  wit = dict(c)
  cfg = dict(block_size=block, graft_type=c["graft"], start_preconditioning_step=0, beta1=0.0, nesterov=False, learning_rate=1.0,
             merge_small_dims_block_size=1, best_effort_shape_interpretation=False, skip_preconditioning_rank_lt=0,
             eigh=c["eigh"], beta2=c["beta2"], matrix_epsilon=c["eps"], relative_matrix_epsilon=c["rel"], diagonal_epsilon=1e-30)
  tol = 2e-5
  if not jax.config.jax_enable_x64:
    # float32 Newton roots carry a rounding error of about kappa * 2^-24 with kappa <= 1/eps (relative ridge), and two batch
    # arrangements round differently: 2e-5 at eps = 1e-3, 2e-4 at eps = 1e-4 (observed once in 10^4 comparisons: 4.5e-5)
    tol = max(tol, 2e-8 / c["eps"])
  mode = c.get("mode", "jit")
  if mode == "pmapq":
    tol = 2e-3      # int16 quantisation of statistics and preconditioners: half a bucket ~ 1.5e-5 per entry, amplified by the root
  rec.count("cases_mode_" + mode)
  try:
    full = run_ds(cfg, {"w": hist}, c["T"], mode)
    sep = run_ds(cfg, {"b%02d" % i: [h[sl] for h in hist] for i, sl in enumerate(slices)}, c["T"], mode)
    comp = None
    if mode == "pmap2":
      c = dict(c, companion=True)
    if c["companion"]:
      zshape = [(7, 9, 2), (13,), (16, 3), (5, 5), (8, 8), (block, block)][int(rng.integers(0, 6))]
      if mode == "pmap2":
        # a companion of a different rank (different root exponent) whose statistics land on the other replica
        zshape = [(13,), (6,)][int(rng.integers(0, 2))] if len(shape) >= 2 else [(5, 5), (7, 3)][int(rng.integers(0, 2))]
      zs = 10 ** rng.uniform(-8, 8)
      # the companion sorts before or after the leaf in the flattened tree (statistics are packed in that order)
      zkey = "a" if rng.random() < 0.5 else "z"
      if c.get("skipcomp") and len(shape) >= 2:
        # a companion that SKIPS preconditioning (rank below skip_preconditioning_rank_lt): it owns no statistics, so every
        # index into the stacked statistics of the leaves after it must not move
        zshape = [(13,), (5,), (20,)][int(rng.integers(0, 3))]
        cfg = dict(cfg, skip_preconditioning_rank_lt=2)
        if mode == "pmap2":
          # a parameter without statistics carries zero-size metric arrays, and this jaxlib's CPU compiler segfaults on any
          # pmap over >= 2 host devices with a zero-size operand (environment defect): run these cases without metrics
          cfg["generate_training_metrics"] = False
        rec.count("cases_skipped_companion")
        full = run_ds(cfg, {"w": hist}, c["T"], mode)
      comp = run_ds(cfg, {"w": hist, zkey: [(rng.standard_normal(zshape) * zs).astype(np.float32) for _ in range(c["T"])]}, c["T"], mode)
    # one block optimised completely alone (its own optimizer instance: no other statistic to be padded to)
    sizes = [min(tuple(sl_.stop - sl_.start for sl_ in sl)) for sl in slices]
    jalone = int(np.argmin(sizes))
    alone = run_ds(cfg, {"b": [h[slices[jalone]] for h in hist]}, c["T"], mode)
  except Exception as e:  # pylint: disable=broad-except
    kind, where = H.classify_exception(e)
    if kind == "reject":
      rec.skip("rejected:" + where)
    else:
      rec.violation("crash:" + where, "%s: %s" % (type(e).__name__, str(e)[:200]), wit)
    return
  for t in range(c["T"]):
    a = [full[t]["w"][sl] for sl in slices]
    b = [sep[t]["b%02d" % i] for i in range(len(slices))]
    if not all(np.all(np.isfinite(x)) for x in a):
      rec.violation("non-finite-update", "non-finite blocked update at step %d" % t, wit)
      return
    rec.count("block_comparisons", len(slices))
    if c["graft"] == 0:
      worst, _ = cmp_blocks(a, b, False, rec, "ds_blocks")
    else:
      # separate leaves each carry their own graft norm: compare directions block by block
      worst = 0.0
      for x, y in zip(a, b):
        w1, _ = cmp_blocks([x], [y], True, rec, "ds_blocks")
        worst = max(worst, w1)
    rec.maxi("ds_block_dev_over_tol", worst / tol)
    if worst > tol:
      rec.violation("blocked-differs-from-separate-blocks:ds", "step %d: blocked %s/%d differs from its blocks as separate leaves by %.3g rel (block scales %s, graft %d)" % (
          t, shape, block, worst, np.array2string(scales, precision=1), c["graft"]), wit)
      return
    if comp is not None:
      rec.count("companion_comparisons")
      # compare block by block so that a small-scale block is not hidden behind a large one
      for sl in slices:
        x, y = comp[t]["w"][sl].astype(np.float64), full[t]["w"][sl].astype(np.float64)
        d = np.max(np.abs(x - y)) / max(np.max(np.abs(y)), 1e-300)
        rec.maxi("companion_dev_over_tol", d / tol)
        if d > tol:
          rec.violation("companion-influences-parameter:ds", "step %d: update of a block of %s changes by %.3g rel when a companion leaf is added" % (t, shape, d), wit)
          return
      rec.count("companion_bitwise_equal" if np.array_equal(comp[t]["w"], full[t]["w"]) else "companion_not_bitwise")
    rec.count("alone_comparisons")
    w1, _ = cmp_blocks([full[t]["w"][slices[jalone]]], [alone[t]["b"]], c["graft"] != 0, rec, "ds_alone")
    rec.maxi("ds_alone_dev_over_tol", w1 / tol)
    if w1 > tol:
      rec.violation("block-differs-from-same-tensor-alone:ds", "step %d: block %d of %s/%d differs by %.3g rel from the same tensor optimised alone (block scales %s)" % (
          t, jalone, shape, block, w1, np.array2string(scales, precision=1)), wit)
      return
  nt = (len(slices) >= 2 and scales.max() / scales.min() >= 1e3) or c["companion"]
  rec.case(util.key_hash(c), nt, sample=c)
  rec.count("cases_ds_blocks")
  if c["companion"]:
    rec.count("cases_ds_companion")


def run_tf(block, decay, trees_hist, T, dtype):
  import jax
  import jax.numpy as jnp
  from precondition.tearfree import shampoo as ts
  with contextlib.redirect_stdout(io.StringIO()):
    opt = ts.apply(ts.Options(block_size=block, second_moment_decay=decay))
    p = {k: jnp.zeros(v[0].shape, dtype) for k, v in trees_hist.items()}
    st = opt.init(p)
    upd = jax.jit(opt.update)
    outs = []
    for t in range(T):
      u, st = upd({k: jnp.asarray(v[t], dtype) for k, v in trees_hist.items()}, st, p)
      outs.append({k: np.asarray(x) for k, x in u.items()})
  return outs


def check_tf(c, rec):
  import jax
  import jax.numpy as jnp
  rng = np.random.default_rng(c["hseed"])
  shape, block = tuple(c["shape"]), c["block"]
  # Tearfree blocks: only dims >= block are blocked (they are multiples of the block)
  per = [[(i, i + block) for i in range(0, d, block)] if d >= block else [(0, d)] for d in shape]
  import itertools
  slices = [tuple(slice(a, b) for a, b in combo) for combo in itertools.product(*per)]
  hist, scales = make_hist(rng, shape, slices, c["T"], -3, 3)
  wit = dict(c)
  dtype = jnp.float64 if jax.config.jax_enable_x64 else jnp.float32
  tol = 1e-9 if dtype == jnp.float64 else 2e-4
  try:
    full = run_tf(block, c["decay"], {"w": hist}, c["T"], dtype)
    sep = run_tf(block, c["decay"], {"b%02d" % i: [h[sl] for h in hist] for i, sl in enumerate(slices)}, c["T"], dtype)
    comp = None
    if c["companion"]:
      zshape = [(8, 4), (3, 3), (4, 2, 3)][int(rng.integers(0, 3))]
      zs = 10 ** rng.uniform(-4, 4)
      comp = run_tf(block, c["decay"], {"w": hist, "z": [(rng.standard_normal(zshape) * zs).astype(np.float32) for _ in range(c["T"])]}, c["T"], dtype)
  except Exception as e:  # pylint: disable=broad-except
    kind, where = H.classify_exception(e)
    if kind == "reject":
      rec.skip("rejected:" + where)
    else:
      rec.violation("crash:" + where, "%s: %s" % (type(e).__name__, str(e)[:200]), wit)
    return
  for t in range(c["T"]):
    a = [full[t]["w"][sl] for sl in slices]
    b = [sep[t]["b%02d" % i] for i in range(len(slices))]
    rec.count("tf_block_comparisons", len(slices))
    worst, _ = cmp_blocks(a, b, False, rec, "tf_blocks")
    rec.maxi("tf_block_dev_over_tol", worst / tol)
    if worst > tol:
      rec.violation("blocked-differs-from-separate-blocks:tearfree", "step %d: Tearfree blocked %s/%d differs from its blocks as separate leaves by %.3g rel (block scales %s)" % (
          t, shape, block, worst, np.array2string(scales, precision=1)), wit)
      return
    if comp is not None:
      rec.count("companion_comparisons")
      d = np.max(np.abs(comp[t]["w"].astype(np.float64) - full[t]["w"].astype(np.float64))) / max(np.max(np.abs(full[t]["w"])), 1e-300)
      if d > tol:
        rec.violation("companion-influences-parameter:tearfree", "step %d: Tearfree update of %s changes by %.3g rel when a companion leaf is added" % (t, shape, d), wit)
        return
  nt = (len(slices) >= 2 and scales.max() / scales.min() >= 1e3) or c["companion"]
  rec.case(util.key_hash(c), nt, sample=c)
  rec.count("cases_tf")


def run(spec, rec):
  rng = util.rng_for(spec["seed"], PROPERTY, spec["name"])
  for i in range(spec["n"]):
    if i % 8 == 7:
      util.release_compiled_code()
    if time.time() > rec.deadline:
      rec.count("dropped_for_budget", spec["n"] - i)
      break
    c = gen_case(rng, spec["kind"])
    (check_ds if c["kind"] == "ds" else check_tf)(c, rec)


def replay(witness, rec):
  c = util.dec(witness)
  (check_ds if c["kind"] == "ds" else check_tf)(c, rec)
