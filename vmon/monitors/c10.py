"""C10 — low-rank packed preconditioner agrees with the dense matrix it denotes.

Observed: return values of _fd_low_rank_pack/_unpack, _low_rank_pack/_unpack,
Preconditioner.preconditioned_grad with packed preconditioners, _low_rank_root.
Oracle: dense matrix c(I - VV') + V diag(e) V' in float64; float64 eigh reference
for the packed root with a spectral-gap guard.
"""
import itertools
import time

import numpy as np

from vmon import util
from vmon.refmodels import roots as R

PROPERTY = "C10"
LEVEL = "exploration"
RULE = ("pack/unpack: exhaustive over all (d, r) with |r|+2 < d <= D (D=12 quick, 20 thorough), both signs of r, "
        "has_zeros in {0,1}, random field values, x64 on and off. Packed application: random (shape rank 1..3, dims "
        "3..9, r, per-axis has_zeros, orthonormal or arbitrary V). Packed root: random PSD matrices (n 4..12, rank, "
        "spread<=1e4, scale 1e-3..1e3, padding 0..3, p 1..8, eps, relative/absolute, both signs of r); cases without "
        "a relative spectral gap >= 1e-3 at the cut are skipped-ambiguous. In-situ: packed roots stored by the real optimizer (compression_rank +-1, +-2; statistic "
        "sizes 3..9 incl. d = |r|+3) against the truncated root of the statistics stored in the same state. Non-trivial: all (d,r) pairs / cases with a "
        "compressed axis; distinct by parameters")
ASSUMPTIONS = ["float64 tolerance 1e-10 relative for application, 1e-8*kappa for roots", "spectral gap >= 1e-3 at the truncation rank"]
DECIDING = ["pack_roundtrip", "unpack_roundtrip", "apply_checked", "root_checked", "has_zeros_identity_checked", "insitu_roots_checked"]
MIN_NONTRIVIAL = 60
TIMEOUT = {"quick": 900, "thorough": 5400}


def exhaustive(tier, counters):
  return counters.get("dropped_for_budget", 0) == 0 and counters.get("pack_pairs", 0) > 0


def shards(tier, seed):
  D = 12 if tier == "quick" else 20
  n = 10 if tier == "quick" else 150
  out = [{"name": "pack64", "env": {"x64": True}, "kind": "pack", "D": D, "budget_s": 800},
         {"name": "pack32", "env": {"x64": False}, "kind": "pack", "D": D, "budget_s": 800}]
  for i in range(3):
    out.append({"name": "insitu%d" % i, "env": {"x64": True}, "kind": "insitu", "n": n, "budget_s": 700 if tier == "quick" else 4500})
  for i in range(7):
    out.append({"name": "apply%d" % i, "env": {"x64": True}, "kind": "apply", "n": n * 2, "budget_s": 700 if tier == "quick" else 4500})
    out.append({"name": "root%d" % i, "env": {"x64": True}, "kind": "root", "n": n * 2, "budget_s": 700 if tier == "quick" else 4500})
  return out


def dense_from_fields(V, e, c, d):
  V = np.asarray(V, np.float64)
  return float(c) * (np.eye(d) - V @ V.T) + (V * np.asarray(e, np.float64)) @ V.T


def check_pack(d, r, hz, seed, rec):
  import jax.numpy as jnp
  from precondition import distributed_shampoo as ds
  k = abs(r)
  rng = np.random.default_rng(seed)
  dt = np.float64 if jnp.zeros(()).dtype == jnp.float64 else np.float32
  V = rng.standard_normal((d, k)).astype(dt)
  defl = rng.uniform(0.5, 2, k).astype(dt)
  inv = rng.uniform(2, 4, k).astype(dt)
  c = dt(rng.uniform(5, 6))
  tail = dt(rng.uniform(7, 8))
  wit = {"fn": "pack", "d": d, "r": r, "hz": hz, "seed": seed}
  rec.case("pk%d|%d|%d|%s" % (d, r, hz, dt.__name__), True, sample=wit if (d == 7 and r == 2) else None)
  rec.count("pack_pairs")
  if not (ds._should_compress(r, d) and ds._precond_dim(r, d) == k + 2):
    rec.violation("precond-dim", "_precond_dim/_should_compress disagree for d=%d r=%d" % (d, r), wit)
    return
  P = ds._fd_low_rank_pack(jnp.asarray(V), jnp.asarray(defl), jnp.asarray(inv), c, tail, bool(hz), r)
  if tuple(P.shape) != (d, k + 2):
    rec.violation("pack-shape", "packed shape %s for d=%d r=%d" % (P.shape, d, r), wit)
    return
  V2, defl2, inv2, c2, tail2, hz2 = ds._fd_low_rank_unpack(P, r)
  rec.count("unpack_roundtrip")
  ok = (np.array_equal(np.asarray(V2), V) and np.array_equal(np.asarray(defl2), defl) and
        np.array_equal(np.asarray(inv2), inv) and np.asarray(c2) == c and np.asarray(tail2) == tail and bool(hz2) == bool(hz))
  if not ok:
    rec.violation("unpack-of-pack", "unpack(pack(fields)) != fields for d=%d r=%d" % (d, r), wit)
    return
  P2 = ds._fd_low_rank_pack(V2, defl2, inv2, c2, tail2, hz2, r)
  rec.count("pack_roundtrip")
  if not np.array_equal(np.asarray(P2), np.asarray(P)):
    rec.violation("pack-of-unpack", "pack(unpack(P)) != P for d=%d r=%d" % (d, r), wit)
    return
  # the 4-field variant
  Q = ds._low_rank_pack(jnp.asarray(V), jnp.asarray(inv), c, r)
  V3, inv3, c3, hz3 = ds._low_rank_unpack(Q, r)
  if not (np.array_equal(np.asarray(V3), V) and np.array_equal(np.asarray(inv3), inv) and np.asarray(c3) == c and not bool(hz3)):
    rec.violation("low-rank-pack", "_low_rank_unpack(_low_rank_pack(...)) != fields for d=%d r=%d" % (d, r), wit)


def gen_apply(rng):
  rank = int(rng.integers(1, 4))
  shape = [int(rng.integers(3, 10)) for _ in range(rank)]
  r = int(rng.integers(1, 4)) * int(rng.choice([1, -1]))
  return {"fn": "apply", "shape": shape, "r": r, "ortho": bool(rng.integers(0, 2)),
          "hz": [bool(rng.random() < 0.25) for _ in shape], "seed": int(rng.integers(0, 2 ** 31))}


def check_apply(c, rec):
  import jax.numpy as jnp
  from precondition import distributed_shampoo as ds
  rng = np.random.default_rng(c["seed"])
  shape, r = tuple(c["shape"]), c["r"]
  k = abs(r)
  g = rng.standard_normal(shape)
  pre = ds.Preconditioner(jnp.zeros(shape), 4096, 1, False, ds.PreconditionerType.ALL, r)
  shapes = pre.shapes_for_preconditioners()
  preconds, dense = [], []
  ncomp = 0
  for ax, d in enumerate(shape):
    comp = k + 2 < d
    if list(map(int, shapes[ax])) != [d, k + 2 if comp else d]:
      rec.violation("announced-packed-shape", "announced %s for dim %d r %d" % (shapes[ax], d, r), c)
      return
    if comp:
      ncomp += 1
      V = rng.standard_normal((d, k))
      if c["ortho"]:
        V, _ = np.linalg.qr(V)
      e = rng.uniform(0.1, 3, k)
      cc = float(rng.uniform(0.1, 3))
      if rng.random() < 0.15:
        # complement weight exactly zero with the flag unset (a vanished tail): denotes V diag(e) V', not the identity
        cc = 0.0
        rec.count("zero_complement_weight_cases")
      P = ds._fd_low_rank_pack(jnp.asarray(V), jnp.zeros(k), jnp.asarray(e), cc, 0.3, c["hz"][ax], r)
      preconds.append(P)
      dense.append(np.eye(d) if c["hz"][ax] else dense_from_fields(V, e, cc, d))
      if c["hz"][ax]:
        rec.count("has_zeros_identity_checked")
    else:
      a = rng.standard_normal((d, d))
      a = a @ a.T / d + np.eye(d)
      preconds.append(jnp.asarray(a))
      dense.append(a)
  rec.case(util.key_hash(c), ncomp > 0, sample=c)
  out = np.asarray(pre.preconditioned_grad(jnp.asarray(g), preconds), np.float64)
  ref = g
  for ax, D in enumerate(dense):
    ref = np.moveaxis(np.tensordot(D, ref, axes=([1], [ax])), 0, ax)
  rec.count("apply_checked")
  err = np.max(np.abs(out - ref)) / (np.max(np.abs(ref)) + 1e-300)
  rec.maxi("apply_relerr_over_1e-10", err / 1e-10)
  if out.shape != ref.shape or err > 1e-10:
    rec.violation("packed-apply", "packed application differs from dense c(I-VV')+V diag(e) V' by %.3g rel" % err, c)


def gen_root(rng):
  while True:
    n = int(rng.integers(4, 13))
    k = int(rng.integers(1, n - 2))
    if k + 2 < n:
      break
  return {"fn": "root", "n": n, "r": k * int(rng.choice([1, -1])), "pad": int(rng.integers(0, 4)),
          "rank": int(rng.integers(max(1, n - 3), n + 1)) if rng.random() < 0.7 else int(rng.integers(1, n + 1)),
          "spread": float(10 ** rng.uniform(0, 4)), "scale": float(10 ** rng.uniform(-3, 3)),
          "p": int(rng.integers(1, 9)), "eps": float(rng.choice([1e-6, 1e-4, 1e-9, 1e-3])),
          "rel": bool(rng.integers(0, 2)), "seed": int(rng.integers(0, 2 ** 31))}


def check_root(c, rec):
  import jax.numpy as jnp
  from precondition import distributed_shampoo as ds
  rng = np.random.default_rng(c["seed"])
  n, r, pad, p = c["n"], c["r"], c["pad"], c["p"]
  k = abs(r)
  A = np.asarray(c["A"], np.float64) if "A" in c else R.random_psd(rng, n, c["rank"], c["spread"], c["scale"])
  N = n + pad
  Ap = np.zeros((N, N))
  Ap[:n, :n] = A
  if pad:
    Ap[n:, n:] = np.eye(pad)
  wit = dict(c, A=A)
  if c["rel"]:
    lam_hat = R.power_iteration_replica(A, N, tol=1e-6)
    d = c["eps"] * max(lam_hat, 1e-6)
  else:
    d = c["eps"]
  w, U = np.linalg.eigh(A + d * np.eye(n))
  root = np.maximum(w, d) ** (-1.0 / p)
  order = np.argsort(w)
  keep = order[::-1][:k] if r > 0 else order[:k]
  rest = np.array([i for i in range(n) if i not in set(keep.tolist())])
  # spectral gap guard at the cut
  wk = w[keep]
  wr = w[rest]
  gap = (wk.min() - wr.max()) if r > 0 else (wr.min() - wk.max())
  if gap < 1e-3 * max(abs(w).max(), 1e-300):
    rec.skip("no-spectral-gap-at-cut")
    return
  kappa = w.max() / max(w.min(), d)
  rec.case(util.key_hash({kk: c[kk] for kk in c if kk != "A"}), True, sample={kk: c[kk] for kk in c if kk != "A"})
  val, m = ds._low_rank_root(jnp.asarray(Ap), p, compression_rank=r, ridge_epsilon=c["eps"],
                             relative_matrix_epsilon=c["rel"], padding_start=n)
  val = np.asarray(val, np.float64)
  if val.shape != (N, k + 2):
    rec.violation("root-shape", "packed root shape %s" % (val.shape,), wit)
    return
  if not np.all(np.isfinite(val)):
    rec.violation("root-nonfinite", "non-finite packed root", wit)
    return
  V, inv, cc, hz = [np.asarray(x) for x in ds._low_rank_unpack(jnp.asarray(val), r)]
  if bool(hz):
    rec.violation("root-has-zeros", "packed root flagged has_zeros", wit)
    return
  if pad and np.max(np.abs(V[n:])) > 1e-9:
    rec.violation("root-padding-leak", "retained eigenvectors have mass %.3g in padding rows" % np.max(np.abs(V[n:])), wit)
    return
  Dobs = dense_from_fields(V[:n], inv, cc, n)
  Uk = U[:, keep]
  const = root[rest].mean() if len(rest) else 0.0
  Dref = (Uk * root[keep]) @ Uk.T + const * (np.eye(n) - Uk @ Uk.T)
  err = np.max(np.abs(Dobs - Dref)) / np.max(np.abs(Dref))
  tol = 1e-8 * max(kappa, 1.0) / max(gap / abs(w).max(), 1e-3) * 1e-3 + 1e-9
  rec.count("root_checked")
  rec.count("root_rpos" if r > 0 else "root_rneg")
  if pad:
    rec.count("root_padded")
  rec.maxi("root_err_over_tol", err / tol)
  if err > tol:
    rec.violation("packed-root", "packed root differs from exact truncated root by %.3g rel (tol %.3g; n=%d r=%d pad=%d p=%d)" % (err, tol, n, r, pad, p), wit)
    return
  errm = float(m.inverse_pth_root_errors)
  if not (errm < 1e-3 * max(abs(w).max(), 1.0)):
    rec.count("root_reported_error_large")


def gen_insitu(rng):
  dims = [4, 5, 6, 7, 8, 9, 3]
  n = int(rng.integers(1, 4))
  tree = {}
  for j in range(n):
    rk = int(rng.integers(1, 3))
    tree["p%d" % j] = [int(rng.choice(dims)) for _ in range(rk)]
  r = int(rng.choice([1, 2])) * int(rng.choice([1, -1]))
  if max(max(s) for s in tree.values()) <= abs(r) + 2:
    # the optimizer rejects a tree in which no statistic is large enough to be compressed
    tree["p0"][0] = 8
  return {"fn": "insitu", "tree": tree, "r": r, "eps": float(rng.choice([1e-3, 1e-4])), "beta2": float(rng.choice([0.9, 1.0])),
          "T": 4, "hseed": int(rng.integers(0, 2 ** 31))}


def check_insitu(c, rec):
  """The packed roots stored by the real optimizer (compression_rank != 0) denote the exact truncated root of the
  statistics stored in the same state."""
  from vmon import dsharness as H
  from vmon.refmodels import ds_ref
  rng = np.random.default_rng(c["hseed"])
  tree, r = c["tree"], c["r"]
  k = abs(r)
  cfg = dict(block_size=16, graft_type=1, compression_rank=r, matrix_epsilon=c["eps"], relative_matrix_epsilon=True, beta2=c["beta2"],
             merge_small_dims_block_size=1, best_effort_shape_interpretation=False, start_preconditioning_step=1, learning_rate=0.1)
  params = {kk: np.asarray(rng.standard_normal(tuple(sh)), np.float32) for kk, sh in tree.items()}
  try:
    run = H.Runner(cfg, params, "jit", 1)
  except Exception as e:  # pylint: disable=broad-except
    kind, where = H.classify_exception(e)
    if kind == "reject":
      rec.skip("rejected:" + where)
      return
    raise
  sizes = [d for sh in tree.values() for d in sh]
  max_size = max(sizes)
  checked = 0
  for t in range(c["T"]):
    g = {kk: np.asarray(rng.standard_normal(tuple(sh)) * 10 ** rng.uniform(-1, 1), np.float32) for kk, sh in tree.items()}
    run.step(g)
    v = run.view()
    for kk, sh in tree.items():
      pexp = 2 * len(sh)
      pv = v["params"][kk]
      for i, n in enumerate(sh):
        P = pv["precs"][i]
        S = pv["stats"][i]
        err = float(pv["metrics"]["errors"][i])
        if not (err == err and err < 0.1):
          rec.count("insitu_rejected_roots")
          continue
        if not (k + 2 < n):
          if P.shape != (n, n):
            rec.violation("insitu-dense-shape", "statistic of size %d with rank %d should be stored dense, got %s" % (n, r, P.shape), c)
            return
          continue
        if P.shape != (n, k + 2):
          rec.violation("insitu-packed-shape", "statistic of size %d with rank %d should be packed [%d,%d], got %s" % (n, r, n, k + 2, P.shape), c)
          return
        lam_hat = R.power_iteration_replica(S, max_size, tol=1e-6)
        d = c["eps"] * max(lam_hat, 1e-6)
        w, U = np.linalg.eigh(S + d * np.eye(n))
        root = np.maximum(w, d) ** (-1.0 / pexp)
        order = np.argsort(w)
        keep = order[::-1][:k] if r > 0 else order[:k]
        rest = np.array([j for j in range(n) if j not in set(keep.tolist())])
        gap = (w[keep].min() - w[rest].max()) if r > 0 else (w[rest].min() - w[keep].max())
        if gap < 2e-2 * w.max() or (k > 1 and np.min(np.abs(np.diff(np.sort(w[keep])))) < 0):
          # per statistic and step (a case has up to 9 statistics x 4 steps): counted; the CASE is a skip only when none of
          # its statistics could be compared
          rec.count("insitu_statistics_without_spectral_gap")
          continue
        Uk = U[:, keep]
        Dref = (Uk * root[keep]) @ Uk.T + root[rest].mean() * (np.eye(n) - Uk @ Uk.T)
        den = ds_ref.dense_of_stored(P, r)
        if den["has_zeros"]:
          rec.violation("insitu-has-zeros", "stored packed root of an accepted statistic is flagged has_zeros (size %d rank %d)" % (n, r), c)
          return
        e = np.max(np.abs(den["D"] - Dref)) / np.max(np.abs(Dref))
        rec.count("insitu_roots_checked")
        rec.count("insitu_size_minus_rank_%d" % min(n - k, 6))
        rec.maxi("insitu_relerr_over_1e-4", e / 1e-4)
        checked += 1
        if e > 1e-4:
          rec.violation("insitu-packed-root", "step %d leaf %s axis %d: stored packed root of a %dx%d statistic (rank %d) differs from the exact truncated root by %.3g rel" % (t, kk, i, n, n, r, e), c)
          return
  if checked == 0:
    rec.skip("insitu-no-spectral-gap")
  rec.case(util.key_hash(c), checked > 0, sample=c)


def _guard(c, rec):
  """Runs one case; an exception raised inside the repository becomes a violation whose witness is the case."""
  import traceback
  try:
    if c["fn"] == "apply":
      check_apply(c, rec)
    elif c["fn"] == "root":
      check_root(c, rec)
    elif c["fn"] == "insitu":
      check_insitu(c, rec)
    else:
      check_pack(c["d"], c["r"], c["hz"], c["seed"], rec)
  except Exception as e:  # pylint: disable=broad-except
    fr = [f for f in traceback.extract_tb(e.__traceback__) if "/precondition/" in f.filename]
    if not fr:
      raise
    if c["fn"] == "insitu":
      # the real optimizer may reject a configuration explicitly (e.g. "all layers are too small for compression_rank")
      from vmon import dsharness as H
      kind, where = H.classify_exception(e)
      if kind == "reject":
        rec.skip("rejected:" + where)
        return
    rec.violation("crash:%s@%s" % (type(e).__name__, fr[-1].name), "%s in %s: %s" % (type(e).__name__, fr[-1].name, str(e)[:200]), c)


def run(spec, rec):
  kind = spec["kind"]
  if kind == "pack":
    for d in range(4, spec["D"] + 1):
      for k in range(1, d - 2):
        for r in (k, -k):
          for hz in (0, 1):
            _guard({"fn": "pack", "d": d, "r": r, "hz": hz, "seed": 1000 * d + 10 * k + hz}, rec)
    return
  rng = util.rng_for(spec["seed"], PROPERTY, spec["name"])
  for i in range(spec["n"]):
    if i % 8 == 7:
      util.release_compiled_code()
    if time.time() > rec.deadline:
      rec.count("dropped_for_budget", spec["n"] - i)
      break
    c = gen_apply(rng) if kind == "apply" else (gen_insitu(rng) if kind == "insitu" else gen_root(rng))
    _guard(c, rec)


def replay(witness, rec):
  _guard(util.dec(witness), rec)
