"""C06 — merging, blocking, blockifying and padding are lossless and self-consistent.

Observed: return values of the real shape helpers on index-valued (arange)
tensors, through icontract postconditions (vmon.contracts) plus driver-side
round-trip checks.  The shape space is enumerated exhaustively up to a bound.
"""
import itertools
import math
import time

import numpy as np

from vmon import util

PROPERTY = "C06"
LEVEL = "exploration"
RULE = ("exhaustive enumeration. merge_small_dims: every shape of rank 0..6, dims 1..3 (thorough: + rank 0..5 dims 1..4) "
        "x limits {1,2,3,4,6,8,16,4096}. Preconditioner/BlockPartitioner: every shape of rank 0..4 dims 1..3, rank 5 "
        "dims 1..2 and rank 1..2 dims 1..6 (thorough: rank 0..5 dims 1..3 and rank 0..4 dims 1..4) x merge limits {off,1,2,3,4,6,8,16,4096} x "
        "block 1..B+1 x types ALL/INPUT/OUTPUT, de-duplicated on (transformed shape, block, type). Tearfree blockify: "
        "every accepted shape over dims {2,3,4,6,8}, rank 1..4 (thorough 1..5), <=1024 elements x block {2,3,4}. "
        "Frequent-directions statistics (factor R with R R' = Gram on compressed axes): rank 1..2 dims 1..6 and {2,5}^3 x block {3,4,8}. Reshaper: shapes rank 0..4 dims 1..4 x merge_dims {2,3,4,6,4096} x block {0,2,3,4}. A case is non-trivial "
        "when the tensor has >1 element; distinct by (function, shape, parameters)")
ASSUMPTIONS = ["tensors are float64 aranges (x64 on) so any permutation, loss or duplication of elements is visible and Gram matrices are exact"]
DECIDING = ["merge_small_dims", "partition_values", "roundtrip_partition", "identity_precondition",
            "announced_vs_produced", "blockify_values", "reshaper_roundtrip", "stats_gram_exact", "fd_statistics_checked"]
MIN_NONTRIVIAL = 200
TIMEOUT = {"quick": 1200, "thorough": 7200}
NSHARDS = 16
LIMITS = [1, 2, 3, 4, 6, 8, 16, 4096]


def exhaustive(tier, counters):
  return counters.get("dropped_for_budget", 0) == 0


def shards(tier, seed):
  B = 3 if tier == "quick" else 4
  out = [{"name": "s%d" % i, "env": {"x64": True}, "part": i, "B": B,
          "budget_s": 1000 if tier == "quick" else 6500} for i in range(NSHARDS)]
  if tier == "thorough":
    # the repository's own tests as extra workloads for the contracts
    for i, f in enumerate(["precondition/distributed_shampoo_test.py", "precondition/tearfree/shampoo_test.py",
                           "precondition/tearfree/reshaper_test.py precondition/tearfree/optimizer_test.py precondition/tearfree/optimizer_smoke_test.py"]):
      out.append({"name": "repotests%d" % i, "env": {"x64": False}, "part": -1, "B": B, "tests": f, "budget_s": 6500})
  return out


def all_shapes(B, maxrank):
  for r in range(maxrank + 1):
    for s in itertools.product(range(1, B + 1), repeat=r):
      yield tuple(s)


def pred_blocks(shape, block):
  """Independent prediction of the row-major contiguous block slices."""
  per_axis = []
  for d in shape:
    if 0 < block < d:
      per_axis.append([(c, min(c + block, d)) for c in range(0, d, block)])
    else:
      per_axis.append([(0, d)])
  return [tuple(slice(lo, hi) for lo, hi in combo) for combo in itertools.product(*per_axis)]


class Ctx:
  def __init__(self, rec):
    self.rec = rec


def guarded(rec, mech_prefix, wit, fn):
  """Runs fn; ContractBroken -> violation, other exceptions -> crash violation."""
  from vmon import contracts
  import traceback
  try:
    return True, fn()
  except contracts.ContractBroken as e:
    rec.violation("contract:" + str(e).replace("postcondition ", "").replace(" violated", ""), "%s on %s" % (e, util.short(wit, 200)), wit)
  except Exception as e:  # pylint: disable=broad-except
    fr = [f for f in traceback.extract_tb(e.__traceback__) if "/precondition/" in f.filename]
    where = fr[-1].name if fr else "?"
    rec.violation("crash:%s@%s" % (type(e).__name__, where), "%s: %s on %s" % (type(e).__name__, str(e)[:150], util.short(wit, 200)), wit)
  return False, None


def check_merge(shape, limit, rec):
  from precondition import distributed_shampoo as ds
  wit = {"fn": "merge_small_dims", "shape": list(shape), "limit": limit}
  rec.case("m%s|%d" % (shape, limit), math.prod(shape) > 1)
  guarded(rec, "merge", wit, lambda: ds.merge_small_dims(list(shape), limit))


def check_preconditioner(shape, limit, block, ptype, rec):
  import jax.numpy as jnp
  from precondition import distributed_shampoo as ds
  wit = {"fn": "Preconditioner", "shape": list(shape), "merge_limit": limit, "block": block, "type": ptype}
  n = math.prod(shape)
  rec.case("p%s|%s|%d|%d" % (shape, limit, block, ptype), n > 1,
           sample=wit if (block == 2 and ptype == 1) else None)
  x = jnp.arange(1, n + 1, dtype=jnp.float64).reshape(shape)

  def body():
    pre = ds.Preconditioner(x, block, limit if limit else 4096, bool(limit), ds.PreconditionerType(ptype), 0)
    tshape = tuple(int(s) for s in pre._transformed_shape)
    if math.prod(tshape) != n:
      rec.violation("transformed-shape", "transformed shape %s loses elements of %s" % (tshape, shape), wit)
      return
    xt = np.arange(1, n + 1, dtype=np.float64).reshape(tshape)
    parts = pre._partitioner.partition(jnp.asarray(xt))
    exp = pred_blocks(tshape, block)
    if len(parts) != len(exp) or len(parts) != math.prod(math.ceil(d / block) if 0 < block < d else 1 for d in tshape):
      rec.violation("block-count", "%d blocks for shape %s block %d" % (len(parts), tshape, block), wit)
      return
    for blk, sl in zip(parts, exp):
      if not np.array_equal(np.asarray(blk), xt[sl]):
        rec.violation("block-not-contiguous-slice", "block is not the predicted contiguous sub-tensor (shape %s block %d)" % (tshape, block), wit)
        return
      if block > 0 and any(int(e) > block for e, d in zip(blk.shape, tshape) if d > block):
        rec.violation("block-too-large", "block extent %s > block size %d" % (blk.shape, block), wit)
        return
    rec.count("blocks_observed", len(parts))
    back = pre._partitioner.merge_partitions(parts)
    rec.count("roundtrip_partition")
    if not np.array_equal(np.asarray(back), xt):
      rec.violation("partition-roundtrip", "merge_partitions(partition(t)) != t for shape %s block %d" % (tshape, block), wit)
      return
    # announced vs produced
    rank = len(tshape)
    if ptype == 1 or rank <= 1:
      axes = list(range(rank))
    elif ptype == 2:
      axes = list(range(rank - 1))
    else:
      axes = [rank - 1]
    announced = [list(map(int, s)) for s in pre.shapes_for_preconditioners()]
    produced = [[int(blk.shape[a])] * 2 for blk in parts for a in axes]
    rec.count("announced_vs_produced")
    if announced != produced:
      rec.violation("announced-vs-produced", "announced %s vs produced %s" % (announced[:6], produced[:6]), wit)
      return
    expo = pre.exponent_for_preconditioner()
    if expo != 2 * len(axes):
      rec.violation("exponent", "exponent %s for %d preconditioned axes" % (expo, len(axes)), wit)
      return
    # statistics: zero old stats, w1=0, w2=1 -> exact Gram matrices per block/axis
    stats0 = [jnp.zeros((s[0], s[0]), jnp.float64) for s in announced]
    new = pre.updated_statistics_from_grad(stats0, x, w1=0.0, w2=1.0)
    grams = []
    for sl in exp:
      b = xt[sl]
      for a in axes:
        m = np.moveaxis(b, a, 0).reshape(b.shape[a], -1)
        grams.append(m @ m.T)
    rec.count("stats_gram_exact", len(grams))
    if len(new) != len(grams) or any(not np.array_equal(np.asarray(s_), g_) for s_, g_ in zip(new, grams)):
      rec.violation("statistics-gram", "updated_statistics_from_grad is not the per-block/axis Gram matrix", wit)
      return
    # identity preconditioning
    ident = [jnp.eye(s[0], dtype=jnp.float64) for s in announced]
    out = pre.preconditioned_grad(x, ident)
    rec.count("identity_precondition")
    if tuple(out.shape) != tuple(shape) or not np.array_equal(np.asarray(out), np.asarray(x)):
      rec.violation("identity-precondition", "preconditioning with identities changed the gradient", wit)
      return
    # distinct scalings per slot: slot k scales by (k+2) -> result must be block * prod(scales of its axes)
    scal = [jnp.eye(s[0], dtype=jnp.float64) * (k + 2) for k, s in enumerate(announced)]
    out2 = np.asarray(pre.preconditioned_grad(x, scal)).reshape(tshape)
    k = 0
    for sl in exp:
      f = 1.0
      for _ in axes:
        f *= (k + 2)
        k += 1
      if not np.array_equal(out2[sl], xt[sl] * f):
        rec.violation("slot-bookkeeping", "preconditioner slot applied to the wrong block/axis", wit)
        return
    rec.count("slot_bookkeeping")

  guarded(rec, "precond", wit, body)


def check_fdstats(shape, block, rec):
  """With frequent directions the statistics of compressed axes are square factors R with R R' = Gram (others stay Gram)."""
  import jax.numpy as jnp
  from precondition import distributed_shampoo as ds
  wit = {"fn": "fdstats", "shape": list(shape), "block": block}
  n = math.prod(shape)
  rec.case("f%s|%d" % (shape, block), n > 1, sample=wit if block == 4 and len(shape) == 2 and shape[0] == 5 else None)
  x = jnp.asarray(np.cos(np.arange(1, n + 1, dtype=np.float64)).reshape(shape))

  def body():
    pre = ds.Preconditioner(x, block, 4096, False, ds.PreconditionerType.ALL, 1)
    xt = np.asarray(x)
    exp = pred_blocks(shape, block)
    announced = [list(map(int, s_)) for s_ in pre.shapes_for_preconditioners()]
    stats0 = [jnp.zeros((s_[0], s_[0]), jnp.float64) for s_ in announced]
    new = pre.updated_statistics_from_grad(stats0, x, w1=0.0, w2=1.0, frequent_directions=True)
    i = 0
    for sl in exp:
      b = xt[sl]
      for a in range(len(shape)):
        m = np.moveaxis(b, a, 0).reshape(b.shape[a], -1)
        gram = m @ m.T
        got = np.asarray(new[i], np.float64)
        d = b.shape[a]
        if got.shape != (d, d):
          rec.violation("fd-statistic-shape", "FD statistic shape %s for axis size %d" % (got.shape, d), wit)
          return
        val = got @ got.T if d > 3 else got      # compression_rank 1: axes with 1 + 2 < d carry factors
        if announced[i] != [d, 3 if d > 3 else d]:
          rec.violation("fd-announced-shape", "announced %s for axis size %d with compression rank 1" % (announced[i], d), wit)
          return
        if np.max(np.abs(val - gram)) > 1e-9 * max(np.max(np.abs(gram)), 1e-300):
          rec.violation("fd-statistic-factor", "FD statistic of axis size %d does not reproduce the Gram matrix (R R' != G G')" % d, wit)
          return
        rec.count("fd_statistics_checked")
        i += 1

  guarded(rec, "fdstats", wit, body)


def check_blockify(shape, block, rec):
  import jax.numpy as jnp
  from precondition.tearfree import shampoo as ts
  wit = {"fn": "_blockify", "shape": list(shape), "block": block}
  opts = ts.Options(block_size=block)
  n = math.prod(shape)
  x = np.arange(1, n + 1, dtype=np.float64).reshape(shape)
  rec.case("b%s|%d" % (shape, block), n > 1, sample=wit if block == 2 and len(shape) == 3 else None)

  def body():
    meta = ts._blocks_metadata(opts, shape, "w")
    bx = ts._blockify(jnp.asarray(x), meta)
    back = ts._deblockify(bx, meta)
    rec.count("roundtrip_blockify")
    if not np.array_equal(np.asarray(back), x):
      rec.violation("blockify-roundtrip", "_deblockify(_blockify(x)) != x", wit)
      return
    large = [i for i, d in enumerate(shape) if d >= block]
    per = [shape[i] // block for i in large]
    bx = np.asarray(bx)
    if bx.shape[meta.blocks_axis] != math.prod(per + [1]):
      rec.violation("blockify-count", "num blocks %d" % bx.shape[meta.blocks_axis], wit)
      return
    for nidx, combo in enumerate(itertools.product(*[range(p) for p in per])):
      sl = [slice(None)] * len(shape)
      for ax, c in zip(large, combo):
        sl[ax] = slice(c * block, (c + 1) * block)
      sub = x[tuple(sl)]
      got = np.take(bx, nidx, axis=meta.blocks_axis)
      if got.shape != sub.shape or not np.array_equal(got, sub):
        rec.violation("blockify-block-not-contiguous", "block %d is not the predicted contiguous sub-tensor" % nidx, wit)
        return
      if any(e > block for e, d in zip(sub.shape, shape) if d >= block):
        rec.violation("blockify-too-large", "block extent > block size", wit)
        return
    rec.count("blockify_blocks", math.prod(per + [1]))
    if [min(d, block) for d in shape] != list(meta.block_sizes):
      rec.violation("blockify-meta", "block_sizes %s" % (meta.block_sizes,), wit)

  guarded(rec, "blockify", wit, body)


def check_reshaper(shape, merge_dims, block, rec):
  import jax.numpy as jnp
  from precondition.tearfree import reshaper
  wit = {"fn": "reshaper", "shape": list(shape), "merge_dims": merge_dims, "block": block}
  n = math.prod(shape)
  x = np.arange(1, n + 1, dtype=np.float64).reshape(shape)
  rec.case("r%s|%d|%d" % (shape, merge_dims, block), n > 1, sample=wit if block == 2 and len(shape) == 2 else None)

  def body():
    o = reshaper.Options(merge_dims=merge_dims, block_size=block)
    mt, ut = reshaper.merge(o), reshaper.unmerge(o)
    p = {"w": jnp.asarray(x)}
    m, _ = mt.update(p, mt.init(p), p)
    mm = np.asarray(m["w"])
    if block:
      for d in mm.shape:
        if d >= block and d % block:
          rec.violation("pad-not-multiple", "padded dim %d not a multiple of block %d" % (d, block), wit)
          return
    # real entries keep value and order; padded region is zero
    if mm.size < n or np.count_nonzero(mm) != n or not np.array_equal(mm[mm != 0], x.ravel()):
      rec.violation("pad-values", "merge/pad lost, reordered or duplicated entries", wit)
      return
    shapes = reshaper._derive_shapes(o, jnp.asarray(x))
    inner = mm[tuple(slice(0, s) for s in shapes.merged_shape)]
    if not np.array_equal(inner.ravel(), x.ravel()):
      rec.violation("pad-region", "real entries are not the leading sub-tensor of the padded tensor", wit)
      return
    for ms in shapes.merged_shape:
      pass
    lim_ok = True
    dims = [d for d in shape]
    for g in shapes.merged_shape:
      if g > merge_dims and g not in dims:
        lim_ok = False
    if not lim_ok:
      rec.violation("merge-limit", "merged dims %s exceed merge_dims %d" % (shapes.merged_shape, merge_dims), wit)
      return
    u, _ = ut.update(m, ut.init(p), p)
    rec.count("reshaper_roundtrip")
    if not np.array_equal(np.asarray(u["w"]), x):
      rec.violation("reshaper-roundtrip", "unmerge(merge(x)) != x", wit)

  guarded(rec, "reshaper", wit, body)


def enumerate_work(B):
  """Deterministic list of work items (kind, args)."""
  work = []
  seen_pre = {}
  from_merge = None
  mshapes = list(all_shapes(3, 6)) + ([s for s in all_shapes(4, 5) if 4 in s] if B > 3 else [])
  for shape in mshapes:
    for lim in LIMITS:
      work.append(("merge", (shape, lim)))
  # preconditioner: dedupe on (transformed shape, block, type) keeping first original shape
  import importlib
  ref_merge = importlib.import_module("vmon.refmodels.shapes").merge_small_dims
  if B <= 3:
    pshapes = list(all_shapes(3, 4)) + [s for s in all_shapes(2, 5) if len(s) == 5] + [s for s in all_shapes(6, 2) if max(s, default=0) > 3]
  else:
    pshapes = list(all_shapes(3, 5)) + [s for s in all_shapes(4, 4) if 4 in s]
  for shape in pshapes:
    for lim in [0] + LIMITS:
      ts_ = tuple(ref_merge(shape, lim)) if lim else shape
      for block in range(1, B + 2):
        for ptype in (1, 2, 3):
          key = (ts_, block, ptype, len(shape) == 0)
          if key in seen_pre:
            seen_pre[key] += 1
            continue
          seen_pre[key] = 1
          work.append(("pre", (shape, lim, block, ptype)))
  tdims = [2, 3, 4, 6, 8]
  for r in range(1, 5 if B <= 3 else 6):
    for shape in itertools.product(tdims, repeat=r):
      if math.prod(shape) > 1024:
        continue
      for block in (2, 3, 4):
        if sum(d >= block for d in shape) > 2:
          continue
        if any(d % block for d in shape if d >= block):
          continue
        work.append(("blockify", (shape, block)))
  for shape in list(all_shapes(6, 2)) + [sh for sh in itertools.product((2, 5), repeat=3)]:
    if not shape:
      continue
    for block in (3, 4, 8):
      work.append(("fdstats", (shape, block)))
  for shape in all_shapes(4, 4):
    for md in (2, 3, 4, 6, 4096):
      for block in (0, 2, 3, 4):
        work.append(("reshaper", (shape, md, block)))
  return work, sum(seen_pre.values())


def run_repo_tests(spec, rec):
  """Runs test files of the repository with the contracts attached (pytest plugin)."""
  import glob
  import json
  import os
  import subprocess
  import sys
  import tempfile
  repo = os.environ.get("VMON_REPO", "/repo")
  tmp = tempfile.mkdtemp(prefix="vmon_c06_")
  env = dict(os.environ, VMON_CONTRACT_COUNTS=os.path.join(tmp, "counts"))
  p = subprocess.run([sys.executable, "-m", "pytest", "-q", "-p", "no:cacheprovider", "-p", "vmon.pytest_contracts",
                      "--timeout=1800"] + spec["tests"].split(), cwd=repo, env=env, capture_output=True, text=True, timeout=6000)
  out = p.stdout + p.stderr
  n = 0
  for f in glob.glob(os.path.join(tmp, "counts.*")):
    for k, v in json.load(open(f)).items():
      rec.count("repo_tests_" + k, v)
      n += v
  rec.count("repo_test_contract_evaluations", n)
  rec.case("repotests|" + spec["tests"], n > 0, sample={"repo_tests": spec["tests"], "contract_evaluations": n})
  if "ContractBroken" in out:
    i = out.index("ContractBroken")
    rec.violation("contract-broken-in-repo-tests", "a C06 contract fired while running %s: %s" % (spec["tests"], out[max(0, i - 600):i + 300].replace("\n", " | ")), {"fn": "repo_tests", "tests": spec["tests"]})
  import shutil
  shutil.rmtree(tmp, ignore_errors=True)


def run(spec, rec):
  if spec.get("tests"):
    return run_repo_tests(spec, rec)
  from vmon import contracts
  contracts.install()
  work, ncombos = enumerate_work(spec["B"])
  rec.count("preconditioner_combinations_represented", ncombos if spec["part"] == 0 else 0)
  mine = work[spec["part"]::NSHARDS]
  for i, (kind, args) in enumerate(mine):
    if time.time() > rec.deadline:
      rec.count("dropped_for_budget", len(mine) - i)
      break
    if kind == "merge":
      check_merge(*args, rec)
    elif kind == "pre":
      check_preconditioner(*args, rec)
    elif kind == "blockify":
      check_blockify(*args, rec)
    elif kind == "fdstats":
      check_fdstats(*args, rec)
    else:
      check_reshaper(*args, rec)
  for k, v in contracts.COUNTS.items():
    rec.count(k, v)


def replay(witness, rec):
  from vmon import contracts
  contracts.install()
  w = util.dec(witness)
  fn = w["fn"]
  if fn == "repo_tests":
    run_repo_tests({"tests": w["tests"]}, rec)
  elif fn == "merge_small_dims":
    check_merge(tuple(w["shape"]), w["limit"], rec)
  elif fn == "Preconditioner":
    check_preconditioner(tuple(w["shape"]), w["merge_limit"], w["block"], w["type"], rec)
  elif fn == "_blockify":
    check_blockify(tuple(w["shape"]), w["block"], rec)
  elif fn == "fdstats":
    check_fdstats(tuple(w["shape"]), w["block"], rec)
  else:
    check_reshaper(tuple(w["shape"]), w["merge_dims"], w["block"], rec)
