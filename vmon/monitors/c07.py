"""C07 — state contract: shapes preserved, layout stable, every accepted config runs.

Observed: jax.tree structure / shape / dtype signatures of the init state, every post-update state and
the updates; exception type and raising frame, over generated option combinations of
distributed_shampoo (incl. compression, frequent directions, gradient averaging, reuse/reset of
preconditioners, LOBPCG, preconditioner types, skip thresholds, metrics on/off, quantisation, pmap axis,
sharding), sm3 and tearfree.
Oracle: sig(state_t) == sig(state_0) for t = 1..T; sig(update) == sig(params); the update step is accepted
as a lax.scan carry; every exception is an explicit explanatory rejection (see dsharness.classify_exception);
sharded: init state, shape_and_dtype_fn and pspec_fn describe one and the same tree, and every declared
(shape, dtype) equals the materialised leaf.
"""
import contextlib
import io
import time

import numpy as np

from vmon import dsharness as H
from vmon import util

PROPERTY = "C07"
LEVEL = "exploration"
RULE = ("random option combinations (every constructor argument of distributed_shampoo drawn independently, pairwise-dense by volume) x modes "
        "{jit, pmap, sharded 2-device} x trees of 1-3 leaves from shapes {(), (1,), (5,), (1,1), (4,3), (6,1), (1,7), (2,3,4), (1,5,2), (3,1,2,2), (9,2), (8,8)} "
        "x 4 updates + the same step as a lax.scan carry; sm3 option combos; tearfree (both second-order types, 4 graft types, momentum/weight-decay "
        "options).  evaluations = configurations tried; non-trivial = configuration that was accepted and ran (its signatures were compared); distinct by hash")
ASSUMPTIONS = ["explicit rejection := ValueError/NotImplementedError with message or AssertionError with an explanatory (>=3 words) message raised by a raise/assert statement of the repository or by validation code of a library it calls"]
DECIDING = ["configs", "ran_ok", "rejected_explicitly", "state_signatures_compared", "scan_carry_checked", "sharded_declarations_checked"]
MIN_NONTRIVIAL = 40
MAX_SKIP_FRACTION = 1.0
TIMEOUT = {"quick": 1800, "thorough": 7200}
SHAPES = [(), (1,), (5,), (1, 1), (4, 3), (6, 1), (1, 7), (2, 3, 4), (1, 5, 2), (3, 1, 2, 2), (9, 2), (8, 8)]


def shards(tier, seed):
  n = 22 if tier == "quick" else 300
  out = []
  for i in range(11):
    out.append({"name": "ds%d" % i, "env": {"x64": False, "devices": 2}, "kind": "ds", "n": n, "budget_s": 1500 if tier == "quick" else 6500})
  for i in range(2):
    out.append({"name": "ds64_%d" % i, "env": {"x64": True, "devices": 2}, "kind": "ds", "n": n, "budget_s": 1500 if tier == "quick" else 6500})
  out.append({"name": "sm3", "env": {"x64": False}, "kind": "sm3", "n": n * 2, "budget_s": 1500 if tier == "quick" else 6500})
  for i in range(2):
    out.append({"name": "tf%d" % i, "env": {"x64": False}, "kind": "tf", "n": n * 3, "budget_s": 1500 if tier == "quick" else 6500})
  return out


def gen_ds(rng):
  c = dict(
      block_size=int(rng.choice([1, 2, 3, 4, 8, 16])),
      graft_type=int(rng.integers(0, 7)),
      precondtioner_type=int(rng.integers(1, 4)),
      beta1=float(rng.choice([0.0, 0.9])), beta2=float(rng.choice([1.0, 0.99, 0.9])),
      nesterov=bool(rng.integers(0, 2)), moving_average_for_momentum=bool(rng.integers(0, 2)),
      weight_decay=float(rng.choice([0.0, 0.01])), decoupled_weight_decay=bool(rng.integers(0, 2)),
      decoupled_learning_rate=bool(rng.integers(0, 2)),
      start_preconditioning_step=int(rng.choice([0, 1, 2])),
      preconditioning_compute_steps=int(rng.choice([1, 2, 3])), statistics_compute_steps=int(rng.choice([1, 2, 3])),
      best_effort_shape_interpretation=bool(rng.integers(0, 2)), merge_small_dims_block_size=int(rng.choice([1, 4, 16, 4096])),
      exponent_override=int(rng.choice([0, 0, 2, 3])), eigh=bool(rng.integers(0, 2)),
      compression_rank=int(rng.choice([0, 0, 0, 1, 2, -1, -2])), frequent_directions=bool(rng.random() < 0.3),
      average_grad=bool(rng.random() < 0.2), reset_preconditioner=bool(rng.random() < 0.15),
      reuse_preconditioner=bool(rng.random() < 0.4),
      generate_training_metrics=bool(rng.random() < 0.7), generate_fd_metrics=bool(rng.random() < 0.3),
      best_effort_memory_usage_reduction=bool(rng.random() < 0.3),
      skip_preconditioning_rank_lt=int(rng.choice([0, 1, 2])), skip_preconditioning_dim_size_gt=int(rng.choice([4096, 4, 6])),
      lobpcg_topk_precondition=int(rng.choice([0, 0, 0, 1, 2])),
      inverse_failure_threshold=float(rng.choice([0.1, 0.0, 1e30])), matrix_epsilon=float(rng.choice([1e-6, 0.0, 1e-3])),
      relative_matrix_epsilon=bool(rng.integers(0, 2)),
      learning_rate=0.1,
  )
  if rng.random() < 0.3:
    c["clip_by_scaled_gradient_norm"] = 1.0
  if rng.random() < 0.15:
    c.update(lr_schedule=["halving", 0.5, 2], decay_preconditioning_compute_steps=True, end_preconditioning_compute_steps=int(rng.choice([10, 20])))
  if c["frequent_directions"] and rng.random() < 0.8:
    c["statistics_compute_steps"] = c["preconditioning_compute_steps"]
    if c["compression_rank"] <= 0:
      c["compression_rank"] = int(rng.choice([1, 2]))
    if rng.random() < 0.7:
      c["reuse_preconditioner"] = True
  nleaves = int(rng.integers(1, 4))
  tree = {"p%d" % j: list(SHAPES[int(rng.integers(0, len(SHAPES)))]) for j in range(nleaves)}
  mode = str(rng.choice(["jit", "jit", "jit", "pmap", "sharded"]))
  if rng.random() < 0.12:
    # LOBPCG needs statistics of size >= 5k: a configuration in which the deflated root actually runs
    c.update(lobpcg_topk_precondition=1, block_size=16, compression_rank=0, frequent_directions=False, average_grad=False,
             reset_preconditioner=False, best_effort_shape_interpretation=False, skip_preconditioning_dim_size_gt=4096)
    tree = {"p0": [8, 8], "p1": [9, 2]}
  elif rng.random() < 0.14:
    # a parameter that is EXCLUDED from preconditioning and is larger than every preconditioned statistic, next to preconditioned
    # ones; half of these with the frequent-directions sketch and its diagnostics
    c.update(block_size=32, skip_preconditioning_rank_lt=2, skip_preconditioning_dim_size_gt=4096, merge_small_dims_block_size=4096,
             best_effort_shape_interpretation=False, lobpcg_topk_precondition=0, generate_training_metrics=True)
    tree = {"p0": [4, 5], "p1": [30], "p2": [3, 2]}
    if rng.random() < 0.5:
      c.update(frequent_directions=True, compression_rank=1, reuse_preconditioner=True, generate_fd_metrics=True,
               statistics_compute_steps=c["preconditioning_compute_steps"])
    else:
      c.update(frequent_directions=False, average_grad=False, reset_preconditioner=False)
  # pmap over one or two devices (with two, the statistics are padded to a multiple of the device count)
  return {"kind": "ds", "cfg": c, "tree": tree, "mode": mode, "hseed": int(rng.integers(0, 2 ** 31)), "pdev": int(rng.integers(1, 3))}


def sig(t):
  import jax
  # treedef objects are compared with ==, not by their string: static metadata such as jnp.int16 vs
  # dtype('int16') prints differently but is equal
  return (jax.tree.structure(t), tuple((tuple(np.shape(x)), str(np.asarray(x).dtype) if not hasattr(x, "dtype") else str(x.dtype)) for x in jax.tree.leaves(t)))


def sig_diff(a, b):
  if a[0] != b[0]:
    return "tree structure differs"
  for i, (x, y) in enumerate(zip(a[1], b[1])):
    if x != y:
      return "leaf %d: %s vs %s" % (i, x, y)
  return "leaf count %d vs %d" % (len(a[1]), len(b[1]))


def handle_exc(e, rec, wit, stage):
  kind, where = H.classify_exception(e)
  if kind == "reject":
    rec.count("rejected_explicitly")
    rec.count("reject:" + where)
    return
  rec.violation("internal-error:" + where, "%s raised %s: %s" % (stage, type(e).__name__, str(e)[:240].replace("\n", " ")), wit)


def check_ds(c, rec):
  import jax
  import jax.numpy as jnp
  cfg, tree, mode = c["cfg"], c["tree"], c["mode"]
  wit = dict(c)
  rec.count("configs")
  rec.count("configs_" + mode)
  if mode == "pmap" and c.get("pdev", 1) == 2:
    rec.count("configs_pmap_two_devices")
  rng = np.random.default_rng(c["hseed"])
  params = {k: rng.standard_normal(tuple(s)).astype(np.float32) for k, s in tree.items()}
  key = util.key_hash({k: c[k] for k in ("cfg", "tree", "mode")})
  try:
    opt = H.make_opt(cfg, mode, 2 if mode == "sharded" else (c.get("pdev", 1) if mode == "pmap" else 1))
  except Exception as e:  # pylint: disable=broad-except
    rec.case(key, False)
    handle_exc(e, rec, wit, "constructor")
    return
  try:
    run = H.Runner(cfg, params, mode, 2 if mode == "sharded" else (c.get("pdev", 1) if mode == "pmap" else 1), opt=opt)
    if mode == "pmap" and c.get("pdev", 1) == 2 and any(np.size(x) == 0 for x in jax.tree.leaves(run.state)):
      # this jaxlib's CPU compiler segfaults on ANY pmap over >= 2 host devices that has a zero-size operand
      # (jax.pmap(lambda x, e: (x * 2, e))(ones((2,)), zeros((2, 0))) dies in backend_compile): an environment defect, not the
      # repository's.  States with empty leaves (metrics of parameters without statistics) run on one device instead.
      rec.count("pmap_two_devices_avoided_zero_size_leaf")
      run = H.Runner(cfg, params, mode, 1, opt=H.make_opt(cfg, mode, 1))
    s0 = sig(run.state)
  except Exception as e:  # pylint: disable=broad-except
    rec.case(key, False)
    handle_exc(e, rec, wit, "init")
    return
  if mode == "sharded":
    if not check_sharded_decl(run, params, rec, wit):
      rec.case(key, True)
      return
  psig = sig({k: jnp.asarray(v) for k, v in params.items()})
  try:
    for t in range(4):
      g = {k: rng.standard_normal(tuple(s)).astype(np.float32) for k, s in tree.items()}
      u, st = run.step(g)
      rec.count("state_signatures_compared")
      if mode == "pmap":
        usig = sig(jax.tree.map(lambda x: x[0], u))
      else:
        usig = sig(u)
      if usig != psig:
        rec.case(key, True)
        rec.violation("update-signature", "update tree differs from the parameter tree at step %d: %s" % (t, sig_diff(usig, psig)), wit)
        return
      s1 = sig(st)
      if s1 != s0:
        rec.case(key, True)
        rec.violation("state-layout-changes", "state signature changes at step %d (%s mode): %s" % (t, mode, sig_diff(s1, s0)), wit)
        return
  except Exception as e:  # pylint: disable=broad-except
    rec.case(key, False)
    handle_exc(e, rec, wit, "update")
    return
  # a real consumer that rejects any drift: lax.scan carry
  if mode == "jit":
    try:
      jp = {k: jnp.asarray(v) for k, v in params.items()}
      gs = {k: jnp.asarray(rng.standard_normal((3,) + tuple(s)).astype(np.float32)) for k, s in tree.items()}

      def body(carry, g):
        u, st2 = opt.update(g, carry, jp)
        return st2, u
      stf, us = jax.jit(lambda s, g: jax.lax.scan(body, s, g))(opt.init(jp), gs)
      rec.count("scan_carry_checked")
    except Exception as e:  # pylint: disable=broad-except
      rec.case(key, True)
      rec.violation("scan-carry-rejected", "lax.scan rejects the state as a carry: %s: %s" % (type(e).__name__, str(e)[:200].replace("\n", " ")), wit)
      return
  rec.count("ran_ok")
  rec.case(key, True, sample={"cfg": {k: v for k, v in cfg.items() if k in ("block_size", "compression_rank", "frequent_directions", "average_grad", "precondtioner_type", "best_effort_memory_usage_reduction")}, "tree": tree, "mode": mode})


def check_sharded_decl(run, params, rec, wit):
  import jax
  import jax.numpy as jnp
  from jax.sharding import PartitionSpec as P

  def leaf_sd(x):
    return isinstance(x, list) and len(x) == 2 and isinstance(x[0], (list, tuple)) and not isinstance(x[1], (list, tuple))
  f = run.init_fns
  jp = {k: jnp.asarray(v) for k, v in params.items()}
  st = run.state
  try:
    sd = f.shape_and_dtype_fn(jp)
    ps = f.pspec_fn(jp, {k: P(*([None] * v.ndim)) for k, v in jp.items()}, P("x", None, None))
  except Exception as e:  # pylint: disable=broad-except
    handle_exc(e, rec, wit, "sharded declaration functions")
    return False
  rec.count("sharded_declarations_checked")
  ta = jax.tree.structure(st)
  tb = jax.tree.structure(sd, is_leaf=leaf_sd)
  tc = jax.tree.structure(ps, is_leaf=lambda x: isinstance(x, P) or x is None)
  if ta != tb:
    rec.violation("sharded-declared-structure", "shape_and_dtype_fn describes a different tree than init_fn builds (%d vs %d leaves)" % (tb.num_leaves, ta.num_leaves), wit)
    return False
  if ta.num_leaves != tc.num_leaves:
    rec.violation("sharded-pspec-structure", "pspec_fn describes a tree with %d leaves, init_fn builds %d" % (tc.num_leaves, ta.num_leaves), wit)
    return False
  pa = jax.tree_util.tree_flatten_with_path(st)[0]
  lb = jax.tree.leaves(sd, is_leaf=leaf_sd)
  for (path, x), y in zip(pa, lb):
    name = jax.tree_util.keystr(path)
    if tuple(x.shape) != tuple(int(v) for v in y[0]):
      rec.violation("sharded-declared-shape", "%s: init builds shape %s but shape_and_dtype_fn declares %s" % (name, tuple(x.shape), y[0]), wit)
      return False
    if jnp.dtype(x.dtype) != jnp.dtype(y[1]):
      field = name.split(".")[-1].split("[")[0]
      rec.violation("sharded-declared-dtype:" + field, "%s: init builds dtype %s but shape_and_dtype_fn declares %s" % (name, x.dtype, jnp.dtype(y[1])), wit)
      return False
  return True


# ------------------------------------------------------------------ sm3 / tearfree
def gen_sm3(rng):
  nleaves = int(rng.integers(1, 4))
  return {"kind": "sm3", "tree": {"p%d" % j: list(SHAPES[int(rng.integers(0, len(SHAPES)))]) for j in range(nleaves)},
          "beta1": float(rng.choice([0.0, 0.9, 1.0])), "beta2": float(rng.choice([1.0, 0.999, 0.5])), "wd": float(rng.choice([0.0, 0.1])),
          "norm": bool(rng.integers(0, 2)), "sched": bool(rng.integers(0, 2)), "hseed": int(rng.integers(0, 2 ** 31))}


def generic_run(opt, tree, rng, rec, wit, key, label):
  import jax
  import jax.numpy as jnp
  params = {k: jnp.asarray(rng.standard_normal(tuple(s)).astype(np.float32)) for k, s in tree.items()}
  try:
    with contextlib.redirect_stdout(io.StringIO()):
      st = opt.init(params)
      upd = jax.jit(opt.update)
    s0 = sig(st)
  except Exception as e:  # pylint: disable=broad-except
    rec.case(key, False)
    handle_exc(e, rec, wit, label + " init")
    return
  psig = sig(params)
  try:
    for t in range(4):
      g = {k: jnp.asarray(rng.standard_normal(tuple(s)).astype(np.float32)) for k, s in tree.items()}
      with contextlib.redirect_stdout(io.StringIO()):
        u, st = upd(g, st, params)
      rec.count("state_signatures_compared")
      if sig(u) != psig:
        rec.case(key, True)
        rec.violation("update-signature:" + label, "update tree differs from the parameter tree: %s" % sig_diff(sig(u), psig), wit)
        return
      if sig(st) != s0:
        rec.case(key, True)
        rec.violation("state-layout-changes:" + label, "state signature changes at step %d: %s" % (t, sig_diff(sig(st), s0)), wit)
        return
    gs = {k: jnp.asarray(rng.standard_normal((3,) + tuple(s)).astype(np.float32)) for k, s in tree.items()}

    def body(carry, g):
      u, st2 = opt.update(g, carry, params)
      return st2, u
    with contextlib.redirect_stdout(io.StringIO()):
      jax.jit(lambda s, g: jax.lax.scan(body, s, g))(opt.init(params), gs)
    rec.count("scan_carry_checked")
  except Exception as e:  # pylint: disable=broad-except
    rec.case(key, False)
    handle_exc(e, rec, wit, label + " update")
    return
  rec.count("ran_ok")
  rec.case(key, True, sample={k: wit[k] for k in wit if k != "hseed"} if label == "tearfree" else None)


def check_sm3(c, rec):
  from precondition import sm3
  rec.count("configs")
  rec.count("configs_sm3")
  rng = np.random.default_rng(c["hseed"])
  lr = (lambda t: 0.1 / (1.0 + t)) if c["sched"] else 0.1
  try:
    opt = sm3.sm3(lr, beta1=c["beta1"], beta2=c["beta2"], weight_decay=c["wd"], normalize_grads=c["norm"])
  except Exception as e:  # pylint: disable=broad-except
    handle_exc(e, rec, dict(c), "sm3 constructor")
    return
  generic_run(opt, c["tree"], rng, rec, dict(c), util.key_hash({k: c[k] for k in c if k != "hseed"}), "sm3")


def gen_tf(rng):
  shapes = [(4, 3), (6,), (8, 4), (2, 3, 2), (1, 5), (4, 4), (), (1,), (3, 5), (8, 2, 2), (12, 3), (5, 1, 2), (6, 6), (5, 3, 5), (5, 5), (2, 2, 2), (4, 4, 4), (4, 8, 8), (3, 3, 6)]
  n = int(rng.integers(1, 4))
  tree = {"p%d" % j: list(shapes[int(rng.integers(0, len(shapes)))]) for j in range(n)}
  block, merge = int(rng.choice([2, 3, 4, 1024])), int(rng.choice([2, 4, 6, 1024]))
  if rng.random() < 0.15:
    # boundary of the blocking validation: rank >= 3 with every dimension a multiple (1x or 2x) of the block size
    block = merge = int(rng.choice([2, 4]))
    tree = {"p0": [block * int(m) for m in rng.integers(1, 3, size=int(rng.integers(3, 5)))]}
  return {"kind": "tf", "tree": tree,
          "second": str(rng.choice(["shampoo", "sketchy"])), "graft": str(rng.choice(["none", "sgd", "rmsprop", "adafactor"])),
          "block": block, "merge": merge, "rank": int(rng.choice([1, 2, 128])),
          "start": int(rng.choice([0, 2])), "skip_rank1": bool(rng.integers(0, 2)), "dim_gt": int(rng.choice([4096, 6])),
          "mdecay": float(rng.choice([0.0, 0.9])), "ema": bool(rng.integers(0, 2)), "nesterov": bool(rng.integers(0, 2)),
          "wd": float(rng.choice([0.0, 0.1])), "wd_after": bool(rng.integers(0, 2)), "sched": bool(rng.integers(0, 2)),
          "freq": int(rng.choice([1, 2])), "add_ggt": bool(rng.random() < 0.2), "ekfac": bool(rng.random() < 0.4),
          "linear_tail": bool(rng.random() < 0.2), "hseed": int(rng.integers(0, 2 ** 31))}


def check_tf(c, rec):
  from precondition.tearfree import grafting, momentum, optimizer as tfo, second_order, shampoo as tshampoo, sketchy
  rec.count("configs")
  rec.count("configs_tearfree")
  rng = np.random.default_rng(c["hseed"])
  wit = dict(c)
  key = util.key_hash({k: c[k] for k in c if k != "hseed"})
  try:
    gt = {"none": grafting.GraftingType.NONE, "sgd": grafting.GraftingType.SGD, "rmsprop": grafting.GraftingType.RMSPROP,
          "adafactor": grafting.GraftingType.ADAFACTOR}[c["graft"]]
    if c["second"] == "sketchy":
      so = second_order.Options(merge_dims=c["merge"], second_order_type=second_order.SecondOrderType.SKETCHY, shampoo_options=None,
                                sketchy_options=sketchy.Options(rank=c["rank"], update_freq=c["freq"], add_ggt=c["add_ggt"], ekfac_svd=c["ekfac"],
                                                                linear_approx_tail=c["linear_tail"]))
    else:
      so = second_order.Options(merge_dims=c["merge"], shampoo_options=tshampoo.Options(block_size=c["block"], update_preconditioners_freq=c["freq"]))
    decay = {"none": 0.0, "sgd": 0.0, "rmsprop": 0.99, "adafactor": 0.9}[c["graft"]]
    opts = tfo.TearfreeOptions(
        grafting_options=grafting.Options(grafting_type=gt, second_moment_decay=decay, start_preconditioning_step=c["start"],
                                          skip_preconditioning_rank1=c["skip_rank1"], skip_preconditioning_any_dim_gt=c["dim_gt"],
                                          min_dim_size_to_factor=4),
        second_order_options=so,
        momentum_options=momentum.Options(ema=c["ema"], nesterov=c["nesterov"], momentum_decay=c["mdecay"], weight_decay=c["wd"],
                                          weight_decay_after_momentum=c["wd_after"]))
    lr = (lambda t: 0.1 / (1.0 + t)) if c["sched"] else 0.1
    with contextlib.redirect_stdout(io.StringIO()):
      opt = tfo.tearfree(lr, opts)
  except Exception as e:  # pylint: disable=broad-except
    rec.case(key, False)
    handle_exc(e, rec, wit, "tearfree constructor")
    return
  generic_run(opt, c["tree"], rng, rec, wit, key, "tearfree")


GEN = {"ds": (gen_ds, check_ds), "sm3": (gen_sm3, check_sm3), "tf": (gen_tf, check_tf)}


def run(spec, rec):
  rng = util.rng_for(spec["seed"], PROPERTY, spec["name"])
  gen, chk = GEN[spec["kind"]]
  for i in range(spec["n"]):
    if i % 8 == 7:
      util.release_compiled_code()
    if time.time() > rec.deadline:
      rec.count("dropped_for_budget", spec["n"] - i)
      break
    chk(gen(rng), rec)


def replay(witness, rec):
  w = util.dec(witness)
  GEN[w["kind"]][1](w, rec)
