"""C11 — quantized optimizer state round-trips within half a bucket, never wraps.

Observed: return values of QuantizedValue.from_float_value / to_float on float32
tensors generated from bit patterns.  Oracle: exact float64 arithmetic.
"""
import numpy as np

from vmon import util

PROPERTY = "C11"
LEVEL = "exploration"
RULE = ("float32 tensors generated from random bit patterns per family (all exponents, "
        "subnormal, near-overflow, mixed sign, constant/zero columns, sparse), rank 1..3, "
        "x {int8,int16,bfloat16,float32} x extract_diagonal; a case is non-trivial when the "
        "tensor has at least one non-zero finite entry; distinct = distinct (family,dtype,shape,"
        "content hash); in-situ: every quantized leaf of the real optimizer state (pmap + memory reduction, fixed and lr-scheduled intervals) after each step")
ASSUMPTIONS = [
    "finite inputs only (the statement quantifies over finite tensors)",
    "rounding slack 8*N*2^-24 buckets added to the half-bucket bound for float32 arithmetic",
]
DECIDING = ["roundtrip_checked", "requant_checked", "int_range_checked", "insitu_values_checked", "bucket_definition_checked", "requant_value_checked"]
MIN_NONTRIVIAL = 50
TIMEOUT = {"quick": 900, "thorough": 3600}

MIN_NORMAL = float(np.float32(2.0) ** -126)
U = 2.0 ** -24

FAMILIES = ["normal", "allexp", "subnormal", "tinynormal", "huge", "const", "zerocol",
            "sparse", "mixedscale", "psd", "onehot", "ties"]


def shards(tier, seed):
  n = 250 if tier == "quick" else 4000
  out = [{"name": "insitu%d" % i, "env": {"x64": False, "devices": 1}, "dtype": "insitu", "part": i, "n": 3 if tier == "quick" else 30,
          "budget_s": 600 if tier == "quick" else 3000} for i in range(2)]
  for dt in ["int8", "int16", "bfloat16", "float32"]:
    for half in range(2 if tier == "quick" else 4):
      out.append({"name": "%s/%d" % (dt, half), "env": {"x64": False}, "dtype": dt,
                  "part": half, "n": n, "budget_s": 600 if tier == "quick" else 3000})
  return out


def gen_tensor(rng, family, shape):
  n = int(np.prod(shape))
  if family == "normal":
    x = rng.standard_normal(n) * 10.0 ** rng.uniform(-3, 3)
  elif family == "allexp":
    bits = rng.integers(0, 2 ** 32, size=n, dtype=np.uint64).astype(np.uint32)
    x = bits.view(np.float32).astype(np.float64)
    x = np.where(np.isfinite(x), x, 0.0)
  elif family == "subnormal":
    x = rng.standard_normal(n) * 10.0 ** rng.uniform(-44, -38)
  elif family == "tinynormal":
    x = rng.standard_normal(n) * 10.0 ** rng.uniform(-37, -30)
  elif family == "huge":
    x = rng.uniform(-1, 1, n) * 3.4e38 * 10.0 ** rng.uniform(-3, 0)
  elif family == "const":
    x = np.full(n, float(rng.standard_normal() * 10.0 ** rng.uniform(-5, 5)))
  elif family == "zerocol":
    x = rng.standard_normal(n).reshape(shape)
    if len(shape) > 1:
      idx = rng.integers(0, shape[-1])
      x[..., idx] = 0.0
    else:
      x[:] = 0.0
    x = x.ravel()
  elif family == "sparse":
    x = rng.standard_normal(n) * (rng.random(n) < 0.3)
  elif family == "mixedscale":
    x = rng.standard_normal(n) * 10.0 ** rng.uniform(-20, 20, n)
  elif family == "psd":
    if len(shape) == 2 and shape[0] == shape[1]:
      a = rng.standard_normal(shape) * 10.0 ** rng.uniform(-3, 3)
      x = (a @ a.T).ravel()
    else:
      x = rng.standard_normal(n)
  elif family == "onehot":
    x = np.zeros(n)
    x[rng.integers(0, n)] = float(rng.standard_normal() * 10.0 ** rng.uniform(-30, 30))
  elif family == "ties":
    # values at exact half-bucket positions relative to the column max
    nb = 127.0
    m = float(2.0 ** rng.integers(-20, 20))
    k = rng.integers(-254, 255, n)
    x = m * k / (2 * nb)
    x[0] = m
  else:
    raise ValueError(family)
  x = np.asarray(x, np.float64).reshape(shape)
  with np.errstate(over="ignore"):
    x32 = x.astype(np.float32)
  x32 = np.where(np.isfinite(x32), x32, np.float32(0)).astype(np.float32)
  return x32


def gen_case(rng):
  family = FAMILIES[int(rng.integers(0, len(FAMILIES)))]
  rank = int(rng.integers(1, 4))
  diag = False
  if rng.random() < 0.3:
    d = int(rng.integers(1, 9))
    shape = (d, d)
    diag = True
  else:
    shape = tuple(int(rng.integers(1, 7)) for _ in range(rank))
  return {"family": family, "shape": list(shape), "diag": diag,
          "x": gen_tensor(rng, family, shape)}


def check_case(case, dtype_name, rec):
  import jax.numpy as jnp
  from precondition.quantization_utils import QuantizedValue as Q
  x = np.asarray(case["x"], np.float32)
  diag = bool(case["diag"])
  dt = {"int8": jnp.int8, "int16": jnp.int16, "bfloat16": jnp.bfloat16,
        "float32": jnp.float32}[dtype_name]
  use_diag = diag and dtype_name in ("int8", "int16")
  wit = dict(case, dtype=dtype_name)
  # bfloat16 / float32 storage with extract_diagonal requested: nothing is extracted there today (the flag is carried only), so
  # the exact-diagonal clause is not asserted, but the round-trip bounds must hold with the flag on as well
  q = Q.from_float_value(jnp.asarray(x), dt, diag)
  if diag and not use_diag:
    rec.count("float_storage_with_extract_diagonal")
  d = np.asarray(q.to_float())
  x64 = x.astype(np.float64)
  d64 = d.astype(np.float64)
  nontrivial = bool(np.any(x != 0))
  rec.case(util.key_hash([case["family"], dtype_name, case["shape"], diag, x.tobytes().hex()[:64]]),
           nontrivial,
           sample={"family": case["family"], "dtype": dtype_name, "shape": case["shape"],
                   "extract_diagonal": use_diag, "x_preview": x.ravel()[:5].tolist()})
  rec.count("family_" + case["family"])
  if d.shape != x.shape:
    rec.violation("shape", "dequantized shape %s != %s" % (d.shape, x.shape), wit)
    return
  if dtype_name == "float32":
    rec.count("roundtrip_checked")
    if not np.array_equal(d, x):
      rec.violation("float32-not-identity", "float32 storage altered the value", wit)
    return
  if dtype_name == "bfloat16":
    rec.count("roundtrip_checked")
    err = np.abs(d64 - x64)
    normal = np.abs(x64) >= MIN_NORMAL
    bound = np.abs(x64) * 2.0 ** -8 * (1 + 1e-6)
    bad = normal & (err > bound)
    rec.maxi("bf16_err_over_bound", float(np.max(np.where(normal, err / np.maximum(bound, 1e-300), 0))) if x.size else 0)
    if np.any(bad):
      rec.violation("bf16-roundtrip", "bfloat16 round trip off by more than 2^-8 relative", wit)
    q2 = Q.from_float_value(jnp.asarray(d), dt, diag)
    rec.count("requant_checked")
    if not np.array_equal(np.asarray(q2.quantized).astype(np.float32), np.asarray(q.quantized).astype(np.float32)):
      rec.violation("bf16-requant", "re-quantizing a dequantized bfloat16 value changed it", wit)
    return

  nb = 127.0 if dtype_name == "int8" else 32767.0
  info = np.iinfo(np.int8 if dtype_name == "int8" else np.int16)
  qi = np.asarray(q.quantized)
  rec.count("int_range_checked")
  if qi.dtype != info.dtype:
    rec.violation("stored-dtype", "stored dtype %s" % qi.dtype, wit)
    return
  if qi.size and (int(qi.min()) <= info.min or int(np.abs(qi.astype(np.int64)).max()) > nb):
    rec.violation("wrap-or-most-negative", "stored integer out of [-%d,%d]: min %d max %d" % (
        nb, nb, qi.min(), qi.max()), wit)
  xo = x64.copy()
  if use_diag:
    np.fill_diagonal(xo, 0.0)
  bucket = np.max(np.abs(xo), axis=0) / nb if xo.ndim >= 1 else np.abs(xo) / nb
  bexp = np.broadcast_to(bucket[None, ...], x.shape) if x.ndim >= 1 else bucket
  # the stored per-column scale is the documented one: column max-abs / 127 (int8) or / 32767 (int16), up to float32
  # rounding (and, with diagonal extraction, the ulp of the diagonal that x - diag(diag(x)) may leave behind)
  bs = np.asarray(q.bucket_size, np.float64)
  if bs.shape == np.shape(bucket):
    slack = 4 * U * bucket + ((np.abs(np.diag(x64)) * 4 * U / nb) if use_diag else 0.0)
    normal_cols = bucket >= MIN_NORMAL * 2
    rec.count("bucket_definition_checked")
    badb = normal_cols & (np.abs(bs - bucket) > slack)
    if np.any(badb):
      rec.violation("bucket-definition", "stored bucket size differs from column max-abs / %d by %.3g relative" % (
          nb, float(np.max(np.abs(bs - bucket)[badb] / bucket[badb]))), wit)
  else:
    rec.count("bucket_shape_unexpected")
  err = np.abs(d64 - x64)
  tol = bexp * (0.5 + 8 * nb * U) + np.abs(x64) * 4 * U
  rec.count("roundtrip_checked")
  bad = err > tol
  if use_diag:
    di = np.diag_indices(x.shape[0])
    rec.count("diag_checked")
    if not np.array_equal(d[di], x[di]):
      # diagonal must be reproduced bit-exactly
      sub = np.abs(x64[di]) < MIN_NORMAL
      if np.array_equal(d[di][~sub], x[di][~sub]):
        rec.violation("ftz-subnormal", "sub-normal diagonal entry flushed", wit)
      else:
        rec.violation("diagonal-not-exact", "extracted diagonal not reproduced exactly", wit)
    bad[di] = False
  zero = (x == 0)
  if use_diag:
    zero[di] = False
  rec.count("zeros_checked", int(zero.sum()))
  if np.any(d[zero] != 0):
    rec.violation("zero-not-exact", "zero entry dequantized to non-zero", wit)
  with np.errstate(divide="ignore", invalid="ignore"):
    ratio = np.where(bexp > 0, err / np.where(bexp > 0, bexp, 1.0), 0.0)
  if np.any(bad):
    ftz = (bexp < MIN_NORMAL * 2) | (np.abs(x64) < MIN_NORMAL)
    if np.all(ftz[bad]):
      rec.violation("ftz-subnormal",
                    "column bucket (max|col|/%d = %.3g) or entry below float32 min-normal: "
                    "flushed to zero, error %.3g buckets" % (nb, float(bexp[bad].min()), float(ratio[bad].max())), wit)
    else:
      nb_bad = bad & ~ftz
      rec.violation("half-bucket", "round trip error %.4g buckets (> 0.5 + slack) at normal magnitudes" % float(ratio[nb_bad].max()), wit)
  else:
    m = tol > 0
    if use_diag:
      m[di] = False
    rec.maxi("err_over_tol", float(np.max(np.where(m, err / np.where(m, tol, 1), 0))) if x.size else 0)
  # idempotent re-quantization (5 rounds): integers must not drift
  cur = q
  ok = True
  for _ in range(3):
    cur2 = Q.from_float_value(cur.to_float(), dt, use_diag)
    if not np.array_equal(np.asarray(cur2.quantized), qi):
      ok = False
      break
    cur = cur2
  rec.count("requant_checked")
  if ok:
    # ... and the value they denote must not drift either (the per-column scale is re-derived in every cycle)
    dn = np.asarray(cur.to_float(), np.float64)
    colmax = np.max(np.abs(xo), axis=0)
    if np.all((colmax / nb >= MIN_NORMAL * 2) | (colmax == 0)) and np.all(np.isfinite(d64)):
      rec.count("requant_value_checked")
      drift = np.abs(dn - d64)
      if np.any(drift > 16 * U * np.abs(d64)):
        m = d64 != 0
        rec.violation("requant-value-drift", "after 3 dequantize/quantize cycles the carried value moved by %.3g relative (integers unchanged)" % (
            float(np.max(drift[m] / np.abs(d64[m]))) if np.any(m) else float("inf")), wit)
  if not ok:
    colmax = np.max(np.abs(xo), axis=0)
    if np.all((colmax / nb >= MIN_NORMAL * 2) | (colmax == 0)):
      rec.violation("requant-drift", "quantize(dequantize(q)) changed the stored integers", wit)
    else:
      rec.violation("ftz-subnormal", "re-quantization changed integers for a sub-normal bucket", wit)


def check_insitu(c, rec):
  """Quantized optimizer state produced by the real optimizer (pmap + best_effort_memory_usage_reduction: int16 statistics
  and preconditioners with extracted diagonal, int8 momenta) is a fixed point of quantize(dequantize(.)), has integers in range,
  and its extracted diagonal is the diagonal of the value it denotes."""
  import jax
  import jax.numpy as jnp
  from precondition.quantization_utils import QuantizedValue as Q
  from vmon import dsharness as H
  rng = np.random.default_rng(c["hseed"])
  tree = c["tree"]
  cfg = dict(block_size=8, graft_type=c["graft"], start_preconditioning_step=1, merge_small_dims_block_size=1, beta2=0.9,
             preconditioning_compute_steps=c["interval"], matrix_epsilon=1e-3, learning_rate=0.1)
  if c["sched"]:
    cfg.update(lr_schedule=["halving", 0.5, 2], decay_preconditioning_compute_steps=True, end_preconditioning_compute_steps=20,
               preconditioning_compute_steps=1)
  params = {k: np.asarray(rng.standard_normal(tuple(s)), np.float32) for k, s in tree.items()}
  # harness-side tap (no source edit): every (integers, diagonal, bucket sizes) triple the optimizer obtains from
  # QuantizedValue.from_float_value with diagonal extraction is recorded; a preconditioner stored in the state must be
  # bit-identical to the previous one or to (a slice of) a recorded triple - i.e. what is stored is what quantize returned
  events = []
  orig = Q.from_float_value.__func__

  def tapped(cls, fvalue, quantized_dtype, extract_diagonal=False, *args, **kwargs):
    out = orig(cls, fvalue, quantized_dtype, extract_diagonal, *args, **kwargs)
    if extract_diagonal and not isinstance(out.quantized, list):
      jax.debug.callback(lambda q_, d_, b_: events.append((np.asarray(q_), np.asarray(d_), np.asarray(b_))),
                         out.quantized, out.diagonal, out.bucket_size)
    return out
  Q.from_float_value = classmethod(tapped)
  try:
    run = H.Runner(cfg, params, "pmapq", 1)
    rec.case(util.key_hash(c), True, sample=c)
    prev = {}
    for t in range(c["T"]):
      g = {k: np.asarray(rng.standard_normal(tuple(s)) * 10 ** rng.uniform(-1, 1), np.float32) for k, s in tree.items()}
      if c.get("spike") is not None and t == c["spike"]:
        g["a"] = (g["a"] * np.float32(1e25)).astype(np.float32)
        rec.count("insitu_overflow_spikes")
      events.clear()
      run.step(g)
      jax.effects_barrier()
      st = jax.tree.map(lambda x: x[0], run.state)
      for k in tree:
        for i, q in enumerate(st.stats[k].preconditioners):
          trip = (np.asarray(q.quantized), np.asarray(q.diagonal), np.asarray(q.bucket_size))
          n = trip[0].shape[0]
          key = (k, i)
          same_as_before = key in prev and all(np.array_equal(a, b) for a, b in zip(prev[key], trip))
          produced = any(e[0].shape[0] >= n and np.array_equal(e[0][:n, :n], trip[0]) and np.array_equal(e[1][:n], trip[1]) and
                         np.array_equal(e[2][:n], trip[2]) for e in events)
          rec.count("insitu_stored_triples_checked")
          if t > 0 or produced:
            rec.count("insitu_triple_matched_quantize_output" if produced else "insitu_triple_unchanged")
          if t > 0 and not (same_as_before or produced):
            rec.violation("insitu-stored-is-not-quantize-output", "preconditioner %d of %s at step %d: the stored (integers, diagonal, bucket sizes) are neither the previous ones nor what QuantizedValue.from_float_value returned this step (%d quantisations observed)" % (i, k, t, len(events)), dict(c, leaf=k, step=t))
            return
          prev[key] = trip
      if not _insitu_fields(c, st, tree, t, rec):
        return
  finally:
    Q.from_float_value = classmethod(orig)


def _insitu_fields(c, st, tree, t, rec):
  import jax.numpy as jnp
  from precondition.quantization_utils import QuantizedValue as Q
  if True:
    for k in tree:
      ps = st.stats[k]
      items = [("statistics[%d]" % i, q) for i, q in enumerate(ps.statistics)] + [("preconditioners[%d]" % i, q) for i, q in enumerate(ps.preconditioners)]
      items += [("momentum", ps.momentum), ("diagonal_momentum", ps.diagonal_momentum)]
      for name, q in items:
        if not hasattr(q, "quantized") or isinstance(q.quantized, list):
          continue
        dt = jnp.dtype(q.quantized_dtype)
        if dt not in (jnp.dtype(jnp.int8), jnp.dtype(jnp.int16)):
          continue
        rec.count("insitu_values_checked")
        qi = np.asarray(q.quantized)
        nb = 127 if dt == jnp.dtype(jnp.int8) else 32767
        wit = dict(c, leaf=k, field=name, step=t)
        val = np.asarray(q.to_float(), np.float64)
        if not np.all(np.isfinite(val)):
          # the property speaks about finite tensors: an overflowed statistic (inf / inf buckets) is out of scope
          rec.count("insitu_nonfinite_values_skipped")
          continue
        if qi.size and int(np.abs(qi.astype(np.int64)).max()) > nb:
          rec.violation("insitu-integer-range", "%s of %s at step %d holds an integer outside [-%d,%d]" % (name, k, t, nb, nb), wit)
          return False
        if q.extract_diagonal and not np.array_equal(np.diag(val).astype(np.float32), np.asarray(q.diagonal)):
          rec.violation("insitu-diagonal", "%s of %s at step %d: stored diagonal is not the diagonal of the value it denotes" % (name, k, t), wit)
          return False
        q2 = Q.from_float_value(jnp.asarray(val, jnp.float32), q.quantized_dtype, q.extract_diagonal)
        off = val - np.diag(np.diag(val)) if q.extract_diagonal else val
        colmax = np.max(np.abs(off), axis=0) if off.ndim >= 1 else np.abs(off)
        if np.any((colmax > 0) & (colmax / nb < MIN_NORMAL * 2)):
          continue
        if not np.array_equal(np.asarray(q2.quantized), qi):
          rec.violation("insitu-not-a-fixed-point", "%s of %s at step %d (%s): quantize(dequantize(state)) changes the stored integers - the stored (integers, diagonal, bucket sizes) are not a consistent quantisation" % (name, k, t, dt), wit)
          return False
  return True


def gen_insitu(rng):
  trees = [{"a": [4, 3], "b": [5]}, {"a": [6, 6]}, {"a": [3, 4, 2], "b": [7, 2]}]
  c = {"fn": "insitu", "tree": trees[int(rng.integers(0, len(trees)))], "graft": int(rng.choice([1, 3])), "interval": int(rng.choice([1, 2])),
       "sched": bool(rng.integers(0, 2)), "T": 6, "hseed": int(rng.integers(0, 2 ** 31))}
  # a finite gradient spike that overflows the float32 statistics of leaf "a" from that step on: its roots are non-finite and
  # rejected, so the carried (integers, diagonal, bucket sizes) must stay bit-identical ("carried but not updated does not drift")
  c["spike"] = int(rng.integers(2, 5)) if rng.random() < 0.5 else None
  return c


def run(spec, rec):
  import time
  if spec["dtype"] == "insitu":
    rng = util.rng_for(spec["seed"], PROPERTY, spec["name"])
    for i in range(spec["n"]):
      if time.time() > rec.deadline:
        break
      check_insitu(gen_insitu(rng), rec)
    return
  dtype_name = spec["dtype"]
  rng = util.rng_for(spec["seed"], PROPERTY, spec["name"])
  for i in range(spec["n"]):
    if time.time() > rec.deadline:
      rec.count("dropped_for_budget", spec["n"] - i)
      break
    case = gen_case(rng)
    check_case(case, dtype_name, rec)


def replay(witness, rec):
  w = util.dec(witness)
  if w.get("fn") == "insitu":
    check_insitu({k: w.get(k) for k in ("fn", "tree", "graft", "interval", "sched", "T", "hseed", "spike")}, rec)
    return
  check_case(w, w["dtype"], rec)
