"""C13 — device-count invariance of the distributed preconditioner computation.

Observed: per-device updates and optimizer state from jax.pmap(update, axis_name) over the first D of 8
forced host-platform CPU devices (replicated inputs), D = 1..8, and from jit under a D-device mesh for the
sharded variant with num_devices_for_pjit = D.
Oracle: every device's updates and state equal device 0's and equal the D=1 run (bitwise expected; a
relative fallback tolerance of 2e-5 (float32 Newton roots under different batch shapes) is applied and the bitwise count is reported).
"""
import time

import numpy as np

from vmon import dsharness as H
from vmon import util

PROPERTY = "C13"
LEVEL = "exploration"
RULE = ("trees chosen so the number of statistics N takes the values {1,2,3,4,5,7,9,11,12,13,16,17,23,29} (all residues mod D for every D in 1..8) "
        "x representation {full, int16-quantised, compressed rank 1, eigh, frequent-directions sketch, full/quantised with one leaf whose roots are always rejected} x D in 1..8 (every D, exhaustive) x 4-step random histories, pmap; "
        "sharded: same trees x D in 1..8.  evaluations = (tree, representation, D) runs; all are non-trivial for D>=2 (N mod D != 0 counted "
        "separately); distinct by (tree, representation, D, mode)")
ASSUMPTIONS = ["host-platform CPU devices forced with --xla_force_host_platform_device_count=8 stand in for accelerators",
               "inputs are replicated across devices (data-parallel training after gradient all-reduce)"]
DECIDING = ["runs", "device_pairs_compared", "indivisible_runs", "state_leaves_compared", "sharded_runs"]
MIN_NONTRIVIAL = 20
TIMEOUT = {"quick": 1800, "thorough": 7200}

# leaf shapes with block 4, merge off: (5,)->2 stats? no: block 4 splits 5 -> (4,),(1,) => 2 stats
TREES = {
    1: {"a": [3]},
    2: {"a": [4, 3]},
    3: {"a": [4, 3], "b": [2]},
    4: {"a": [6, 4]},
    5: {"a": [6, 4], "b": [3]},
    7: {"a": [6, 4], "b": [4, 3], "c": [4]},
    9: {"a": [3, 4, 2], "b": [6, 4], "c": [5]},
    11: {"a": [6, 4], "b": [6, 3], "c": [3, 2, 2]},
    12: {"a": [3, 4, 2], "b": [3, 4, 2], "c": [5, 4, 2]},
    13: {"a": [9, 6], "b": [3]},
    16: {"a": [9, 6], "b": [6, 4]},
    17: {"a": [9, 6], "b": [6, 4], "c": [3]},
    23: {"a": [9, 6], "b": [6, 4], "c": [5, 4, 2], "d": [3]},
    29: {"a": [9, 6], "b": [9, 7], "c": [6, 4], "d": [2]},
}
REPS = ["full", "quant", "comp", "eigh", "fd", "full_reject", "quant_reject", "full_reject_nm", "quant_nm"]


def shards(tier, seed):
  ns = [1, 2, 3, 5, 7, 12] if tier == "quick" else sorted(TREES)
  reps = ["full", "quant", "comp", "fd", "quant_reject", "full_reject_nm"] if tier == "quick" else REPS
  items = [{"N": n, "rep": r, "mode": "pmap"} for n in ns for r in reps]
  items += [{"N": n, "rep": "full", "mode": "sharded"} for n in ns]
  out = []
  k = 16
  for i in range(k):
    mine = items[i::k]
    if mine:
      out.append({"name": "g%d" % i, "env": {"x64": False, "devices": 8}, "items": mine,
                  "budget_s": 1500 if tier == "quick" else 6500})
  return out


def count_stats(tree, block=4):
  from vmon.refmodels import shapes as SH
  n = 0
  for s in tree.values():
    n += len(SH.block_slices(tuple(s), block)) * len(s)
  return n


def cfg_for(rep):
  c = dict(block_size=4, start_preconditioning_step=1, merge_small_dims_block_size=1, best_effort_shape_interpretation=False,
           learning_rate=0.1, graft_type=1, skip_preconditioning_rank_lt=0,
           # well-conditioned roots: differently shaped batches compile to different reduction orders, and float32
           # rounding differences are amplified by the conditioning of (S + dI); 1e-3 keeps them ~1e-7
           matrix_epsilon=1e-3)
  if rep.endswith("_nm"):
    # without training metrics the per-statistic errors still drive the acceptance gate on every replica
    c["generate_training_metrics"] = False
  if rep == "comp":
    c["compression_rank"] = 1
    c["block_size"] = 4
  if rep == "eigh":
    c["eigh"] = True
  if rep == "fd":
    # the sketch lives in the previous preconditioner, which every replica must take from its own slice
    c.update(compression_rank=1, frequent_directions=True, reuse_preconditioner=True, beta2=0.9)
  return c


def flat_state(state):
  import jax
  return [np.asarray(x) for x in jax.tree.leaves(state)]


def state_paths(state):
  import jax
  return [jax.tree_util.keystr(p) for p, _ in jax.tree_util.tree_flatten_with_path(state)[0]]


def leaf_policy(path):
  """Diagnostics that measure float32 rounding noise of the Newton iteration (final error ~1e-7, the ratio of the
  last two errors, the iteration count) are not numerically meaningful to 1e-5 relative: the error is compared
  absolutely, the other two are not compared."""
  if "training_metrics" in path:
    if path.endswith("final_error_ratio") or path.endswith("inverse_pth_root_iters"):
      return "skip"
    if path.endswith("inverse_pth_root_errors") or "diagnostics" in path:
      return "abs"
  return "rel"


def close_abs(a, b, atol=1e-5):
  if a.shape != b.shape:
    return False
  a64, b64 = a.astype(np.float64), b.astype(np.float64)
  same_nonfinite = (np.isnan(a64) & np.isnan(b64)) | ((a64 == b64) & ~np.isfinite(a64))
  with np.errstate(invalid="ignore"):
    return bool(np.all(same_nonfinite | (np.abs(a64 - b64) <= atol)))


TOL = 2e-5
_REC = [None]


def close(a, b):
  if a.shape != b.shape:
    return False, False
  if np.array_equal(a, b, equal_nan=True):
    return True, True
  a64, b64 = a.astype(np.float64), b.astype(np.float64)
  nf = ~np.isfinite(a64) | ~np.isfinite(b64)
  if np.any(nf):
    # non-finite entries (overflowing statistics of the always-rejected leaf) must coincide exactly
    same = (np.isnan(a64) & np.isnan(b64)) | (a64 == b64)
    if not np.all(same[nf]):
      return False, False
    a64, b64 = np.where(nf, 0.0, a64), np.where(nf, 0.0, b64)
  sc = max(np.max(np.abs(b64)), 1e-30)
  dev = float(np.max(np.abs(a64 - b64)) / sc)
  if _REC[0] is not None:
    _REC[0].maxi("max_relative_deviation_over_tol", dev / TOL)
  return bool(dev <= TOL), False


def run_pmap(item, seed, rec):
  tree = TREES[item["N"]]
  cfg = cfg_for(item["rep"])
  mode = "pmapq" if item["rep"].startswith("quant") else "pmap"
  T = 4
  rng = np.random.default_rng([seed, item["N"]])
  params = {k: rng.standard_normal(tuple(s)).astype(np.float32) for k, s in tree.items()}
  hist = [{k: rng.standard_normal(tuple(s)).astype(np.float32) for k, s in tree.items()} for _ in range(T)]
  if "_reject" in item["rep"]:
    # the first leaf's statistics overflow (deterministically rejected roots: it must keep its old preconditioners),
    # all other leaves are accepted: a gate applied to the wrong statistic shows as a difference between device counts
    k0 = sorted(tree)[0]
    for g in hist:
      g[k0] = (g[k0] * 1e25).astype(np.float32)
  base_u, base_s = None, None
  for D in range(1, 9):
    wit = dict(item, D=D, seed=seed)
    if time.time() > rec.deadline:
      rec.count("dropped_for_budget")
      return
    try:
      r = H.Runner(cfg, params, mode, D)
      ups = []
      for g in hist:
        u, st = r.step(g)
        ups.append({k: np.asarray(v) for k, v in u.items()})
    except Exception as e:  # pylint: disable=broad-except
      kind, where = H.classify_exception(e)
      if kind == "reject":
        rec.skip("rejected:" + where)
        return
      rec.violation("crash:%s" % where, "D=%d N=%d rep=%s raised %s: %s" % (D, item["N"], item["rep"], type(e).__name__, str(e)[:200]), wit)
      return
    leaves = flat_state(st)        # each has leading device axis D
    paths = state_paths(st)
    rec.count("runs")
    rec.case("%s|%s|%d|pmap" % (item["N"], item["rep"], D), D >= 2, sample=wit if D == 3 else None)
    if item["N"] % D != 0:
      rec.count("indivisible_runs")
    if D == 1:
      base_u, base_s = ups, [x[0] for x in leaves]
      continue
    for t, u in enumerate(ups):
      for k in u:
        for d in range(D):
          rec.count("device_pairs_compared")
          ok0, bit0 = close(u[k][d], u[k][0])
          ok1, bit1 = close(u[k][d], base_u[t][k][0])
          rec.count("updates_bitwise" if (bit0 and bit1) else "updates_not_bitwise")
          if not ok0:
            rec.violation("devices-disagree:updates", "D=%d N=%d rep=%s step %d: device %d's update of %s differs from device 0's" % (D, item["N"], item["rep"], t, d, k), wit)
            return
          if not ok1:
            rec.violation("differs-from-single-device:updates", "D=%d N=%d (N mod D = %d) rep=%s step %d: update of %s differs from the 1-device run (max rel %.3g)" % (
                D, item["N"], item["N"] % D, item["rep"], t, k,
                np.max(np.abs(u[k][d].astype(np.float64) - base_u[t][k][0])) / max(np.max(np.abs(base_u[t][k][0])), 1e-30)), wit)
            return
    for i, x in enumerate(leaves):
      pol = leaf_policy(paths[i])
      if pol == "skip":
        rec.count("noise_diagnostics_not_compared")
        continue
      for d in range(D):
        rec.count("state_leaves_compared")
        if pol == "abs":
          ok0, bit0 = close_abs(x[d], x[0]), np.array_equal(x[d], x[0])
          ok1, bit1 = close_abs(x[d], base_s[i]), np.array_equal(x[d], base_s[i])
        else:
          ok0, bit0 = close(x[d], x[0])
          ok1, bit1 = close(x[d], base_s[i])
        rec.count("state_bitwise" if (bit0 and bit1) else "state_not_bitwise")
        if not ok0:
          rec.violation("devices-disagree:state", "D=%d N=%d rep=%s: state leaf %s on device %d differs from device 0" % (D, item["N"], item["rep"], paths[i], d), wit)
          return
        if not ok1:
          rec.violation("differs-from-single-device:state", "D=%d N=%d (N mod D = %d) rep=%s: final state leaf %s differs from the 1-device run" % (D, item["N"], item["N"] % D, item["rep"], paths[i]), wit)
          return


def run_sharded(item, seed, rec):
  tree = TREES[item["N"]]
  cfg = cfg_for("full")
  T = 4
  rng = np.random.default_rng([seed, item["N"], 5])
  params = {k: rng.standard_normal(tuple(s)).astype(np.float32) for k, s in tree.items()}
  hist = [{k: rng.standard_normal(tuple(s)).astype(np.float32) for k, s in tree.items()} for _ in range(T)]
  base = None
  for D in range(1, 9):
    wit = dict(item, D=D, seed=seed)
    if time.time() > rec.deadline:
      rec.count("dropped_for_budget")
      return
    try:
      r = H.Runner(cfg, params, "sharded", D)
      ups = []
      for g in hist:
        u, st = r.step(g)
        ups.append(r.updates_np(u))
      v = r.view()
    except Exception as e:  # pylint: disable=broad-except
      kind, where = H.classify_exception(e)
      if kind == "reject":
        rec.skip("rejected:" + where)
        return
      rec.violation("crash:%s" % where, "sharded D=%d N=%d raised %s: %s" % (D, item["N"], type(e).__name__, str(e)[:200]), wit)
      return
    rec.count("runs")
    rec.count("sharded_runs")
    rec.case("%s|%d|sharded" % (item["N"], D), D >= 2)
    if item["N"] % D != 0:
      rec.count("indivisible_runs")
    ngl = int(np.asarray(st.stats.global_stats.statistics).shape[0])
    if ngl % D != 0 or ngl < item["N"]:
      rec.violation("sharded-padding", "sharded D=%d N=%d: global statistics count %d is not a multiple of D covering N" % (D, item["N"], ngl), wit)
      return
    if D == 1:
      base = (ups, v)
      continue
    for t, u in enumerate(ups):
      for k in u:
        rec.count("device_pairs_compared")
        ok, bit = close(u[k], base[0][t][k])
        rec.count("updates_bitwise" if bit else "updates_not_bitwise")
        if not ok:
          rec.violation("differs-from-single-device:sharded-updates", "sharded D=%d N=%d step %d: update of %s differs from num_devices_for_pjit=1" % (D, item["N"], t, k), wit)
          return
    for k in tree:
      for name in ("stats", "precs"):
        for i, (x, y) in enumerate(zip(v["params"][k][name], base[1]["params"][k][name])):
          rec.count("state_leaves_compared")
          ok, bit = close(np.asarray(x), np.asarray(y))
          rec.count("state_bitwise" if bit else "state_not_bitwise")
          if not ok:
            rec.violation("differs-from-single-device:sharded-state", "sharded D=%d N=%d: %s[%d] of %s differs from num_devices_for_pjit=1" % (D, item["N"], name, i, k), wit)
            return
      for name in ("mom", "diag_mom"):
        ok, bit = close(np.asarray(v["params"][k][name]), np.asarray(base[1]["params"][k][name]))
        if not ok:
          rec.violation("differs-from-single-device:sharded-state", "sharded D=%d N=%d: %s of %s differs" % (D, item["N"], name, k), wit)
          return


def run(spec, rec):
  _REC[0] = rec
  for item in spec["items"]:
    assert count_stats(TREES[item["N"]]) == item["N"], (item, count_stats(TREES[item["N"]]))
    if item["mode"] == "pmap":
      run_pmap(item, spec["seed"], rec)
    else:
      run_sharded(item, spec["seed"], rec)


def replay(witness, rec):
  w = util.dec(witness)
  item = {"N": w["N"], "rep": w["rep"], "mode": w["mode"]}
  (run_pmap if item["mode"] == "pmap" else run_sharded)(item, w.get("seed", 0), rec)
