"""C17 — Sketchy memory reallocation respects the memory budget.

Observed: return value of create_redist_dict on synthetic in-memory states in
the checkpoint layout the function reads.  Oracle: every sketched axis gets a
Python/NumPy integer in [1, dim]; per equal-dim group the ranks sum to at most
|group| * base rank.
"""
import time

import numpy as np

from vmon import util

PROPERTY = "C17"
LEVEL = "exploration"
RULE = ("random layer sets (1..8 layers, 1..3 axes each, dims from a pool of 1..4 values so groups are shared "
        "and unshared) x score families {normal, scale-disparate 1e-6..1e6, tied, some-zero, all-zero, "
        "one-dominant, float32-cancelling} x base rank 1..40 x 5 scoring rules x running average on/off; "
        "non-trivial when a group has >= 2 axes; distinct by structural hash of (dims, base, rule, scores)")
ASSUMPTIONS = ["states are synthetic dictionaries in the layout create_redist_dict reads (no checkpoint I/O)"]
DECIDING = ["axes_checked", "groups_checked"]
MIN_NONTRIVIAL = 50
TIMEOUT = {"quick": 900, "thorough": 5400}

RULES = ["sketch_trace", "tail_rho", "sketch_intrinsic_rank", "ggt_trace", "ggt_intrinsic_rank"]
MODES = ["normal", "disparate", "tied", "somezero", "allzero", "dominant", "cancel"]


def shards(tier, seed):
  n = 60 if tier == "quick" else 1500
  return [{"name": "s%d" % i, "env": {"x64": False}, "n": n,
           "budget_s": 500 if tier == "quick" else 4500} for i in range(16)]


def gen_case(rng):
  L = int(rng.integers(1, 9))
  pool = [int(x) for x in rng.choice([2, 3, 4, 5, 8, 16, 32, 64], size=int(rng.integers(1, 5)))]
  naxes = int(rng.integers(1, 4))
  base = int(rng.integers(1, 41))
  mode = MODES[int(rng.integers(0, len(MODES)))]
  rule = RULES[int(rng.integers(0, len(RULES)))]
  nstates = int(rng.choice([1, 1, 2, 3]))
  avg = bool(nstates > 1 and rng.random() < 0.7)
  layers = []
  for l in range(L):
    axes = []
    for a in range(naxes):
      dim = int(rng.choice(pool))
      k = min(dim, base)
      per_state = []
      for s in range(nstates):
        if mode == "disparate":
          ev = np.abs(rng.standard_normal(k)) * 10.0 ** rng.uniform(-6, 6)
        elif mode == "tied":
          ev = np.ones(k) * 3.0
        elif mode == "somezero":
          ev = np.zeros(k) if rng.random() < 0.5 else np.abs(rng.standard_normal(k))
        elif mode == "allzero":
          ev = np.zeros(k)
        elif mode == "dominant":
          ev = np.abs(rng.standard_normal(k)) * (1e8 if (l == 0 and a == 0) else 1.0)
        elif mode == "cancel":
          ev = np.zeros(k)
          ev[0] = float(rng.choice([1e8, 5e7, 16777216.0, 3.0, 3.0, 1.0]))
        else:
          ev = np.abs(rng.standard_normal(k))
        tail = abs(float(rng.standard_normal())) * 10.0 ** rng.uniform(-3, 3) if mode != "allzero" else 0.0
        if mode == "tied":
          tail = 2.0
        per_state.append({"eigvals": np.asarray(ev, np.float32), "tail": np.float32(tail)})
      axes.append({"dim": dim, "k": k, "states": per_state})
    layers.append(axes)
  return {"layers": layers, "base": base, "rule": rule, "avg": avg, "nstates": nstates, "mode": mode,
          "with_dim_key": bool(rng.random() < 0.5), "gseed": int(rng.integers(0, 2 ** 31))}


def build_states(c):
  import jax.numpy as jnp
  rng = np.random.default_rng(c["gseed"])
  states = []
  for s in range(c["nstates"]):
    sk = {}
    for l, axes in enumerate(c["layers"]):
      ax = {}
      for a, spec in enumerate(axes):
        d, k = spec["dim"], spec["k"]
        ev = np.asarray(spec["states"][s]["eigvals"], np.float32)
        ent = {"eigvals": jnp.asarray(ev), "tail": jnp.asarray(spec["states"][s]["tail"], jnp.float32),
               "eigvecs": jnp.zeros((d, k), jnp.float32)}
        if c["rule"].startswith("ggt"):
          q, _ = np.linalg.qr(rng.standard_normal((d, d)))
          lam = np.zeros(d)
          lam[:k] = ev.astype(np.float64) ** 2
          ent["ema_ggt"] = jnp.asarray((q * lam) @ q.T, jnp.float32)
        if c["with_dim_key"]:
          ent["dim"] = d
        ax[str(a)] = ent
      sk["layer%d" % l] = {"kernel": {"axes": ax}}
    states.append({"inner_state": {"0": {"direction": {"1": {"sketches": sk}}}}})
  return tuple(states)


def classify_budget(c, dim, ranks, budget):
  return "over-budget"


def check_case(c, rec):
  from precondition.tearfree import reallocation as R
  states = build_states(c)
  groups = {}
  for l, axes in enumerate(c["layers"]):
    for a, spec in enumerate(axes):
      groups.setdefault(spec["dim"], []).append((l, a))
  desc = {"dims": [[s["dim"] for s in axes] for axes in c["layers"]], "base": c["base"], "rule": c["rule"],
          "avg": c["avg"], "mode": c["mode"],
          "scores": [[float(np.sum(s["states"][-1]["eigvals"])) for s in axes] for axes in c["layers"]]}
  rec.case(util.key_hash(desc), any(len(v) >= 2 for v in groups.values()), sample=desc)
  rec.count("mode_" + c["mode"])
  rec.count("rule_" + c["rule"])
  try:
    res = R.create_redist_dict("", [-1], c["rule"], c["avg"], c["base"], states)
  except Exception as e:  # pylint: disable=broad-except
    import traceback
    fr = [f for f in traceback.extract_tb(e.__traceback__) if "reallocation" in f.filename]
    where = "%s:%s" % (fr[-1].name, (fr[-1].line or "")[:50]) if fr else "?"
    rec.violation("crash:%s@%s" % (type(e).__name__, where),
                  "create_redist_dict raised %s: %s" % (type(e).__name__, str(e)[:200]), c)
    return
  got = {}
  for l, axes in enumerate(c["layers"]):
    name = "layer%d" % l
    try:
      ranks = res[name]["kernel"]
    except Exception:  # pylint: disable=broad-except
      rec.violation("missing-layer", "no allocation returned for %s" % name, c)
      return
    if len(ranks) != len(axes):
      rec.violation("missing-axis", "layer %s: %d ranks for %d axes" % (name, len(ranks), len(axes)), c)
      return
    for a, spec in enumerate(axes):
      r = ranks[a]
      rec.count("axes_checked")
      if not isinstance(r, (int, np.integer)) or isinstance(r, bool):
        rec.violation("rank-not-integer", "%s axis %d: rank %r of type %s" % (name, a, r, type(r).__name__), c)
        return
      if not 1 <= int(r) <= spec["dim"]:
        rec.violation("rank-out-of-range", "%s axis %d: rank %d not in [1,%d] (base %d)" % (name, a, r, spec["dim"], c["base"]), c)
        return
      got[(l, a)] = int(r)
  for dim, members in groups.items():
    rec.count("groups_checked")
    tot = sum(got[m] for m in members)
    budget = len(members) * c["base"]
    rec.maxi("budget_use", tot / budget)
    if tot > budget:
      rec.violation(classify_budget(c, dim, [got[m] for m in members], budget),
                    "group dim=%d: ranks %s sum %d > %d = %d axes x base %d" % (
                        dim, [got[m] for m in members], tot, budget, len(members), c["base"]), c)
      return
    if tot == budget:
      rec.count("budget_exactly_used")


def run(spec, rec):
  rng = util.rng_for(spec["seed"], PROPERTY, spec["name"])
  for i in range(spec["n"]):
    if time.time() > rec.deadline:
      rec.count("dropped_for_budget", spec["n"] - i)
      break
    check_case(gen_case(rng), rec)


def replay(witness, rec):
  check_case(util.dec(witness), rec)
