"""C14 — training resumes bit-identically from serialized optimizer state at any step.

Observed: process A runs T steps of an optimizer, recording flax.serialization.to_bytes(state_k)
for every k in 0..T and every update.  For EVERY interruption point k a *fresh process* B
constructs the optimizer from the same hyper-parameters, restores from_bytes(init(params), bytes_k),
continues to T and returns its updates and final state.
Oracle: every update after k and the final state are bit-identical to the uninterrupted run; the
restored state has the template's tree structure, shapes and dtypes.
"""
import hashlib
import json
import os
import subprocess
import sys
import tempfile
import time

import numpy as np

PROPERTY = "C14"
LEVEL = "fault_enumeration"
VARIANTS = ["ds_full", "ds_eigh", "ds_quant_pmap", "ds_comp", "ds_comp_neg", "ds_fd", "ds_rmsprop_sched", "ds_sharded", "sm3", "sm3_nomom",
            "tf_shampoo", "tf_sketchy", "tf_shampoo_rmsprop", "ds_adagrad_lobpcg",
            # un-jitted (eager) updates: Python-side hidden state would act at every call, not only at trace time
            "sm3_eager", "ds_sched_eager", "tf_shampoo_eager",
            # frequent directions with gradient averaging (window 1 and 2), multi-block sharded layout
            "ds_fd_avg1", "ds_fd_avg2", "ds_sharded_blocks",
            # FD diagnostics next to a parameter that skips preconditioning; bfloat16 parameters with int8/int16 state
            "ds_fd_metrics", "ds_quant_pmap_bf16"]
RULE = ("crash-point enumeration: for each optimizer variant in {distributed_shampoo full / eigh / pmap int16-quantised / compressed +1 / compressed -1 / "
        "FD sketch / RMSProp graft + lr schedule + scheduled statistics / sharded 2-device, sm3 (int8 momentum) with and without momentum, Tearfree Shampoo / "
        "Sketchy / Shampoo+RMSProp graft, AdaGrad graft, un-jitted (eager) sm3 / scheduled distributed_shampoo / Tearfree Shampoo, FD with gradient averaging (window 1, 2), sharded with multi-block parameters, FD diagnostics with a skipped parameter, bfloat16 parameters with quantised state} x 2 seeds (thorough 6) EVERY interruption point k in 0..T (T=6, thorough 10) is "
        "resumed in a fresh interpreter.  evaluations = (variant, seed, k) resumes; non-trivial when 0<k<T (state has history and steps remain); distinct by (variant, seed, k)")
ASSUMPTIONS = ["serialization = flax.serialization.to_bytes / from_bytes into the state produced by init() of a freshly constructed optimizer",
               "for pmap variants the per-device state (device 0) is serialized and re-replicated",
               "the fresh process uses the same machine, XLA build and flags (bit-identity across machines is not claimed)"]
DECIDING = ["resumes", "updates_compared", "final_states_compared"]
MIN_NONTRIVIAL = 20
TIMEOUT = {"quick": 1800, "thorough": 7200}
TREE = {"a": [6, 4], "b": [5], "c": [3, 4, 2]}


def exhaustive(tier, counters):
  return counters.get("dropped_for_budget", 0) == 0


def shards(tier, seed):
  T = 6 if tier == "quick" else 10
  seeds = [100 * seed + j for j in range(2 if tier == "quick" else 6)]
  items = [{"variant": v, "rseed": s} for v in VARIANTS for s in seeds]
  out = []
  for i in range(16):
    mine = items[i::16]
    if mine:
      out.append({"name": "g%d" % i, "env": {"x64": False, "devices": 2}, "items": mine, "T": T,
                  "budget_s": 1500 if tier == "quick" else 6500})
  return out


# ------------------------------------------------------------------ optimizer variants (shared by parent and child)
def make(variant):
  """-> (opt, mode) ; mode in {plain, pmap, sharded, eager}."""
  if variant.endswith("_eager"):
    base_variant = {"sm3_eager": "sm3", "ds_sched_eager": "ds_rmsprop_sched", "tf_shampoo_eager": "tf_shampoo"}[variant]
    return make(base_variant)[0], "eager"
  import contextlib
  import io
  import jax.numpy as jnp
  from vmon import dsharness as H
  base = dict(block_size=4, start_preconditioning_step=2, preconditioning_compute_steps=2, learning_rate=0.1, merge_small_dims_block_size=1)
  if variant == "ds_full":
    return H.make_opt(base, "jit"), "plain"
  if variant == "ds_eigh":
    return H.make_opt(dict(base, eigh=True, graft_type=2), "jit"), "plain"
  if variant == "ds_quant_pmap":
    return H.make_opt(base, "pmapq", 1), "pmap"
  if variant == "ds_quant_pmap_bf16":
    return H.make_opt(dict(base, beta1=0.9), "pmapq", 1), "pmap"
  if variant == "ds_fd_metrics":
    return H.make_opt(dict(base, compression_rank=1, block_size=8, frequent_directions=True, reuse_preconditioner=True, generate_fd_metrics=True,
                           statistics_compute_steps=2, skip_preconditioning_rank_lt=2), "jit"), "plain"
  if variant == "ds_comp":
    return H.make_opt(dict(base, compression_rank=1, block_size=8), "jit"), "plain"
  if variant == "ds_comp_neg":
    return H.make_opt(dict(base, compression_rank=-1, block_size=8, eigh=True), "jit"), "plain"
  if variant == "ds_fd":
    return H.make_opt(dict(base, compression_rank=1, block_size=8, frequent_directions=True, reuse_preconditioner=True, statistics_compute_steps=2), "jit"), "plain"
  if variant == "ds_rmsprop_sched":
    return H.make_opt(dict(base, graft_type=3, lr_schedule=["halving", 0.5, 2], statistics_compute_steps=2, beta2=0.9, weight_decay=0.01,
                           moving_average_for_momentum=True), "jit"), "plain"
  if variant == "ds_adagrad_lobpcg":
    return H.make_opt(dict(base, graft_type=6, lobpcg_topk_precondition=0, block_size=8, nesterov=False, exponent_override=2), "jit"), "plain"
  if variant == "ds_sharded":
    return H.make_opt(base, "sharded", 2), "sharded"
  if variant == "ds_sharded_blocks":
    return H.make_opt(dict(base, block_size=3, graft_type=3, reuse_preconditioner=True), "sharded", 2), "sharded"
  if variant in ("ds_fd_avg1", "ds_fd_avg2"):
    w = 1 if variant == "ds_fd_avg1" else 2
    return H.make_opt(dict(base, compression_rank=1, block_size=8, frequent_directions=True, reuse_preconditioner=True, average_grad=True,
                           statistics_compute_steps=w, preconditioning_compute_steps=w), "jit"), "plain"
  if variant in ("sm3", "sm3_nomom"):
    from precondition import sm3
    return sm3.sm3(0.1, beta1=0.9 if variant == "sm3" else 0.0, beta2=0.99), "plain"
  from precondition.tearfree import grafting, optimizer as tfo, second_order, shampoo as tshampoo, sketchy
  if variant == "tf_sketchy":
    so = second_order.Options(merge_dims=2, second_order_type=second_order.SecondOrderType.SKETCHY, shampoo_options=None,
                              sketchy_options=sketchy.Options(rank=2, update_freq=2))
    gt = grafting.GraftingType.SGD
  else:
    so = second_order.Options(merge_dims=2, shampoo_options=tshampoo.Options(block_size=4, update_preconditioners_freq=2))
    gt = grafting.GraftingType.RMSPROP if variant == "tf_shampoo_rmsprop" else grafting.GraftingType.SGD
  go = grafting.Options(grafting_type=gt, second_moment_decay=0.9 if gt == grafting.GraftingType.RMSPROP else 0.0,
                        start_preconditioning_step=2, skip_preconditioning_rank1=False)
  with contextlib.redirect_stdout(io.StringIO()):
    return tfo.tearfree(0.1, tfo.TearfreeOptions(second_order_options=so, grafting_options=go)), "plain"


def history(rseed, T):
  rng = np.random.default_rng([rseed, 14])
  params = {k: rng.standard_normal(tuple(s)).astype(np.float32) for k, s in TREE.items()}
  hist = [{k: (rng.standard_normal(tuple(s)) * 10 ** rng.uniform(-1, 1)).astype(np.float32) for k, s in TREE.items()} for _ in range(T)]
  return params, hist


class Stepper:
  def __init__(self, variant):
    import contextlib
    import io
    import jax
    import jax.numpy as jnp
    self.jax, self.jnp = jax, jnp
    self.variant = variant
    self.opt, self.mode = make(variant)
    self.mesh = None

  def init(self, params):
    jax, jnp = self.jax, self.jnp
    import contextlib
    import io
    self.dtype = jnp.bfloat16 if self.variant.endswith("_bf16") else jnp.float32
    self.params = {k: jnp.asarray(v, self.dtype) for k, v in params.items()}
    with contextlib.redirect_stdout(io.StringIO()):
      if self.mode == "sharded":
        from jax.sharding import Mesh
        st = self.opt.init(self.params).init_fn(self.params)
        self.mesh = Mesh(np.array(jax.devices()[:2]), ("x",))
        self._f = jax.jit(self.opt.update)
      elif self.mode == "pmap":
        st = self.opt.init(self.params)
        self._f = jax.pmap(lambda g, s: self.opt.update(g, s, self.params), axis_name="b", devices=jax.devices()[:1])
      elif self.mode == "eager":
        st = self.opt.init(self.params)
        self._f = self.opt.update
      else:
        st = self.opt.init(self.params)
        self._f = jax.jit(self.opt.update)
    return st

  def step(self, g, st):
    jax, jnp = self.jax, self.jnp
    import contextlib
    import io
    g = {k: jnp.asarray(v, self.dtype) for k, v in g.items()}
    with contextlib.redirect_stdout(io.StringIO()):
      if self.mode == "pmap":
        u, st2 = self._f(jax.tree.map(lambda x: x[None], g), jax.tree.map(lambda x: x[None], st))
        u, st2 = jax.tree.map(lambda x: x[0], u), jax.tree.map(lambda x: x[0], st2)
      elif self.mode == "sharded":
        with jax.set_mesh(self.mesh):
          u, st2 = self._f(g, st, self.params)
      else:
        u, st2 = self._f(g, st, self.params)
    # (bfloat16 -> float32 is exact, and NumPy's npz format cannot hold bfloat16)
    return {k: np.asarray(v.astype(jnp.float32) if v.dtype == jnp.bfloat16 else v) for k, v in u.items()}, st2


def sig(tree):
  import jax
  return (jax.tree.structure(tree), [(tuple(np.shape(x)), str(np.asarray(x).dtype)) for x in jax.tree.leaves(tree)])


def state_digest(st):
  import jax
  h = hashlib.sha256()
  for x in jax.tree.leaves(st):
    a = np.asarray(x)
    h.update(str(a.dtype).encode() + str(a.shape).encode() + a.tobytes())
  return h.hexdigest()


# ------------------------------------------------------------------ child (fresh process)
def child_main(workdir, variant, rseed, T, k):
  import warnings
  warnings.filterwarnings("ignore")
  from flax import serialization
  params, hist = history(rseed, T)
  s = Stepper(variant)
  template = s.init(params)
  with open(os.path.join(workdir, "state_%d.bin" % k), "rb") as f:
    blob = f.read()
  st = serialization.from_bytes(template, blob)
  # from_bytes returns NumPy leaves; put them back on device as a checkpoint restore does (in eager mode NumPy
  # operands would otherwise be combined by NumPy instead of XLA and differ in the last bit)
  import jax
  import jax.numpy as jnp
  st = jax.tree.map(jnp.asarray, st)
  a, b = sig(st), sig(template)
  if variant.endswith("_bf16"):
    # with bfloat16 parameters every optimizer of the repository (and optax.trace) promotes its momentum buffers to float32 in the
    # first update, so the state after k >= 1 steps legitimately differs from init()'s template in dtype (parameter dtypes are not
    # in C07's quantifier); structure and shapes must still agree, and the continuation must still be bit-identical
    a, b = (a[0], [x[0] for x in a[1]]), (b[0], [x[0] for x in b[1]])
  out = {"struct_ok": a == b, "sig_detail": ""}
  if not out["struct_ok"]:
    out["sig_detail"] = "treedef equal: %s; first differing leaf: %s" % (a[0] == b[0], next(((i, x, y) for i, (x, y) in enumerate(zip(a[1], b[1])) if x != y), None))
  ups = {}
  for t in range(k, T):
    u, st = s.step(hist[t], st)
    for name, v in u.items():
      ups["u%d_%s" % (t, name)] = v
  np.savez(os.path.join(workdir, "child_%d.npz" % k), **ups)
  out["final_digest"] = state_digest(st)
  with open(os.path.join(workdir, "child_%d.json" % k), "w") as f:
    json.dump(out, f)


# ------------------------------------------------------------------ parent
def run_item(item, T, rec):
  from flax import serialization
  from vmon import dsharness as H
  variant, rseed = item["variant"], item["rseed"]
  wit = dict(item, T=T)
  workdir = tempfile.mkdtemp(prefix="vmon_c14_")
  try:
    params, hist = history(rseed, T)
    try:
      s = Stepper(variant)
      st = s.init(params)
      blobs = [serialization.to_bytes(st)]
      ups = []
      for t in range(T):
        u, st = s.step(hist[t], st)
        ups.append(u)
        blobs.append(serialization.to_bytes(st))
      final = state_digest(st)
    except Exception as e:  # pylint: disable=broad-except
      kind, where = H.classify_exception(e)
      if kind == "reject":
        # the variants are fixed configurations that are meant to be accepted: a rejection leaves this variant unobserved,
        # which must not pass silently (worker status harness_error -> the run is inconclusive)
        raise RuntimeError("C14 variant %s is rejected by the optimizer: %s" % (variant, str(e)[:300]))
      rec.violation("crash:" + where, "variant %s raised %s: %s" % (variant, type(e).__name__, str(e)[:200]), wit)
      return
    for k, b in enumerate(blobs):
      with open(os.path.join(workdir, "state_%d.bin" % k), "wb") as f:
        f.write(b)
    env = dict(os.environ)
    for k in range(T + 1):
      if time.time() > rec.deadline:
        rec.count("dropped_for_budget", T + 1 - k)
        return
      p = subprocess.run([sys.executable, "-m", "vmon.monitors.c14", "child", workdir, variant, str(rseed), str(T), str(k)],
                         env=env, capture_output=True, text=True, timeout=900)
      w2 = dict(wit, k=k)
      rec.case("%s|%d|%d" % (variant, rseed, k), 0 < k < T, sample=w2 if k == 3 else None)
      rec.count("resumes")
      rec.count("resumes_" + variant)
      if p.returncode != 0 or not os.path.exists(os.path.join(workdir, "child_%d.json" % k)):
        rec.violation("resume-crash:" + variant, "fresh process failed to restore/continue variant %s from step %d: %s" % (variant, k, (p.stderr or "")[-400:].replace("\n", " | ")), w2)
        return
      with open(os.path.join(workdir, "child_%d.json" % k)) as f:
        cj = json.load(f)
      if not cj["struct_ok"]:
        rec.violation("restored-structure-differs:" + variant, "state restored at step %d does not have the template's structure/shapes/dtypes (%s)" % (k, cj["sig_detail"]), w2)
        return
      cu = np.load(os.path.join(workdir, "child_%d.npz" % k))
      for t in range(k, T):
        for name in ups[t]:
          rec.count("updates_compared")
          a, b = ups[t][name], cu["u%d_%s" % (t, name)]
          if a.dtype != b.dtype or a.shape != b.shape or a.tobytes() != b.tobytes():
            dev = float(np.max(np.abs(a.astype(np.float64) - b.astype(np.float64)))) if a.shape == b.shape else float("nan")
            rec.violation("resume-not-bit-identical:" + variant, "variant %s resumed from step %d: update of %s at step %d differs from the uninterrupted run (max abs diff %.3g)" % (variant, k, name, t, dev), w2)
            return
      rec.count("final_states_compared")
      if cj["final_digest"] != final:
        rec.violation("resume-final-state-differs:" + variant, "variant %s resumed from step %d: final state differs from the uninterrupted run although updates matched" % (variant, k), w2)
        return
  finally:
    import shutil
    shutil.rmtree(workdir, ignore_errors=True)


def run(spec, rec):
  for item in spec["items"]:
    run_item(item, spec["T"], rec)


def replay(witness, rec):
  from vmon import util
  w = util.dec(witness)
  run_item({"variant": w["variant"], "rseed": w["rseed"]}, w.get("T", 6), rec)


if __name__ == "__main__":
  if sys.argv[1] == "child":
    child_main(sys.argv[2], sys.argv[3], int(sys.argv[4]), int(sys.argv[5]), int(sys.argv[6]))
