"""C09 — the frequent-directions sketch brackets the true second moment.

Observed: sketch state (V, l, t, stored inverse roots) after every FD step of
  A. distributed_shampoo._fd_update_root fed by frequent_directions_update (direct, float64),
  B. Tearfree Sketchy through its public gradient transformation (float32),
  C. the OCO sketches (S_ADA / ADA_FD, float64),
  D. the packed sketches inside distributed_shampoo state after public updates (float32; jit and 2-device pmap).
Oracle: the monitor keeps the exact b-discounted covariance C (plus the per-step ridge the
configuration adds on the sketch span, tracked exactly) and checks
  V'V diagonal 0/1, l >= 0, t >= 0, S <= C <= S + t I (PSD order), t' = b t + rho with rho the
  (k+1)-th eigenvalue recomputed independently, zero-gradient step => l' = b l, t' = b t,
  history of rank <= k => t = 0 and S = C, stored inverse roots = (l + t + eps)^(-1/p).
"""
import contextlib
import io
import time

import numpy as np

from vmon import dsharness as H
from vmon import util

PROPERTY = "C09"
LEVEL = "exploration"
RULE = ("random histories (length 3..12, thorough ..40) from families {full-rank, low-rank (rank<=k), zero steps interleaved, scale-varying "
        "1e-2..1e2, repeated} x dimension d 4..10 x sketch rank k 1..d-3 x decay b in {1,.999,.9,.5} x exponent p x padding 0..3 (driver A) "
        "x tensor rank 1..3 / every axis (drivers B, D) for the four drivers; evaluations = FD steps observed; a history is non-trivial when "
        "at least one step deflates (rho>0) or is a zero/low-rank exactness step; distinct by hash of (driver, parameters, history seed)")
ASSUMPTIONS = ["PSD-order tolerance tau*||C||: tau = 1e-10 (float64 drivers), 2e-4 (float32 drivers)",
               "driver A/D: the ridge added on the sketch span each step is read from the observed pre-state and added to the monitor's C"]
DECIDING = ["fd_steps", "bracket_checked", "tail_recurrence_checked", "inverse_roots_checked", "zero_step_checked", "lowrank_exact_checked",
            "steps_A", "steps_B", "steps_C", "steps_D"]
MIN_NONTRIVIAL = 30
TIMEOUT = {"quick": 1500, "thorough": 7200}
FAMS = ["full", "lowrank", "zeros", "scales", "repeated"]


def shards(tier, seed):
  n = 18 if tier == "quick" else 150
  out = []
  for i in range(5):
    out.append({"name": "A%d" % i, "env": {"x64": True}, "driver": "A", "n": n * 2, "budget_s": 1200 if tier == "quick" else 6500})
  for i in range(5):
    out.append({"name": "B%d" % i, "env": {"x64": False}, "driver": "B", "n": n, "budget_s": 1200 if tier == "quick" else 6500})
  for i in range(2):
    out.append({"name": "C%d" % i, "env": {"x64": True}, "driver": "C", "n": n * 3, "budget_s": 1200 if tier == "quick" else 6500})
  for i in range(4):
    out.append({"name": "D%d" % i, "env": {"x64": False, "devices": 2}, "driver": "D", "n": n, "budget_s": 1200 if tier == "quick" else 6500})
  return out


def gen_hist(rng, fam, T, d, m, k):
  out = []
  base = rng.standard_normal((d, m))
  rk = max(1, min(k, m, d) - int(rng.integers(0, 2)))
  left = rng.standard_normal((d, rk))
  for t in range(T):
    if fam == "lowrank":
      g = left @ rng.standard_normal((rk, m))
    elif fam == "zeros" and t % 3 == 2:
      g = np.zeros((d, m))
    elif fam == "scales":
      g = rng.standard_normal((d, m)) * 10 ** rng.uniform(-2, 2)
    elif fam == "repeated":
      g = base
    else:
      g = rng.standard_normal((d, m))
    out.append(g)
  return out, rk


class Tracker:
  """Exact covariance and the generic FD oracle for one sketched axis."""

  def __init__(self, d, k, b, tau, rec, wit, label):
    self.C = np.zeros((d, d))
    self.d, self.k, self.b, self.tau = d, k, b, tau
    self.rec, self.wit, self.label = rec, wit, label
    self.V = np.zeros((d, k))
    self.l = np.zeros(k)
    self.t = 0.0
    self.deflated_any = False
    self.mech_override = None

  def viol(self, mech, text):
    self.rec.violation(self.mech_override or mech, text, self.wit)

  def step(self, G, V, l, t, ridge_on_span=0.0, inv=None, inv_const=None, p=None, eps=0.0, zero_step=False, lowrank_ok=False, step_no=0,
           tail_rel_tol=None):
    """G: d x m factor of this step (None = no update this step).  Returns False on violation."""
    rec, b, d, k = self.rec, self.b, self.d, self.k
    V = np.asarray(V, np.float64)
    l = np.asarray(l, np.float64)
    t = float(t)
    rec.count("fd_steps")
    Sprev = (self.V * self.l) @ self.V.T + ridge_on_span * (self.V @ self.V.T) * 1.0
    M = b * Sprev + G @ G.T
    self.C = b * (self.C + ridge_on_span * (self.V @ self.V.T)) + G @ G.T
    scale = max(np.linalg.norm(self.C, 2), 1e-300)
    tau = self.tau
    lab = self.label
    if not (np.all(np.isfinite(V)) and np.all(np.isfinite(l)) and np.isfinite(t)):
      self.viol("fd-non-finite:" + lab, "non-finite sketch state at step %d" % step_no)
      return False
    if np.any(l < -tau * scale) or t < -tau * scale:
      self.viol("fd-negative:" + lab, "negative sketch eigenvalue %.3g or escaped mass %.3g at step %d" % (l.min(), t, step_no))
      return False
    # orthonormal-or-zero columns
    Gm = V.T @ V
    dg = np.diag(Gm)
    off = Gm - np.diag(dg)
    ot = 1e-8 if tau < 1e-6 else 5e-4
    if np.max(np.abs(off)) > ot or np.any((np.abs(dg - 1) > ot * 4) & (np.abs(dg) > ot * 4)):
      self.viol("fd-not-orthonormal:" + lab, "sketch directions not orthonormal-or-zero at step %d (max off-diag %.3g, diag %s)" % (step_no, np.max(np.abs(off)), np.round(dg, 4)))
      return False
    if np.any((np.abs(dg) <= ot * 4) & (l > tau * scale)):
      self.viol("fd-eigenvalue-without-direction:" + lab, "positive sketch eigenvalue attached to a zero direction at step %d" % step_no)
      return False
    S = (V * l) @ V.T
    lo = np.linalg.eigvalsh(self.C - S).min() / scale
    hi = np.linalg.eigvalsh(self.C - S - t * np.eye(d)).max() / scale
    rec.count("bracket_checked")
    rec.maxi("bracket_violation_over_tau:" + lab, max(-lo, hi) / tau)
    if lo < -tau or hi > tau:
      self.viol("fd-bracket:" + lab, "step %d: sketch outside S <= C <= S + tI (lambda_min(C-S)=%.3g, lambda_max(C-S-tI)=%.3g relative to ||C||)" % (step_no, lo, hi))
      return False
    # escaped-mass recurrence
    ev = np.sort(np.linalg.eigvalsh((M + M.T) / 2))[::-1]
    rho = max(ev[k], 0.0) if k < d else 0.0
    t_exp = b * self.t + rho
    rec.count("tail_recurrence_checked")
    ttol = (tail_rel_tol or (1e-9 if tau < 1e-6 else 2e-3)) * abs(t_exp) + 0.05 * tau * scale
    rec.maxi("tail_err_over_tol:" + lab, abs(t - t_exp) / ttol)
    if abs(t - t_exp) > ttol:
      self.viol("fd-tail-recurrence:" + lab, "step %d: escaped mass %.9g != b*t_old + rho = %.6g*%.9g + %.9g = %.9g" % (step_no, t, b, self.t, rho, t_exp))
      return False
    if rho > tau * scale:
      self.deflated_any = True
    if zero_step:
      rec.count("zero_step_checked")
      l_exp = np.sort(b * (self.l + ridge_on_span * (np.diag(self.V.T @ self.V) > 0.5)))[::-1]
      if np.max(np.abs(np.sort(l)[::-1] - l_exp)) > ttol + (1e-9 if tau < 1e-6 else 2e-3) * max(l_exp.max(), 0):
        self.viol("fd-zero-step:" + lab, "zero-gradient step %d: sketch eigenvalues %s != b * previous %s" % (step_no, np.sort(l)[::-1], l_exp))
        return False
    if lowrank_ok:
      rec.count("lowrank_exact_checked")
      if t > tau * scale * 10 or np.linalg.norm(self.C - S, 2) > tau * scale * 10:
        self.viol("fd-lowrank-not-exact:" + lab, "history of rank <= k at step %d: escaped mass %.3g, ||C-S|| %.3g (should be 0)" % (step_no, t, np.linalg.norm(self.C - S, 2)))
        return False
    if inv is not None:
      rec.count("inverse_roots_checked")
      inv = np.asarray(inv, np.float64)
      act = l > tau * scale
      exp_inv = np.where(act, (np.where(act, l, 1.0) + t + eps) ** (-1.0 / p), 0.0)
      rtol = 1e-8 if tau < 1e-6 else 2e-3
      if np.any(np.abs(inv - exp_inv)[act] > rtol * np.abs(exp_inv)[act]):
        self.viol("fd-inverse-roots:" + lab, "step %d: stored inverse roots %s != (l+t+eps)^(-1/%s) = %s" % (step_no, inv, p, exp_inv))
        return False
      if inv_const is not None:
        ec = (t + eps) ** (-1.0 / p) if t > tau * scale else None
        if ec is not None and abs(float(inv_const) - ec) > rtol * ec:
          self.viol("fd-inverse-tail:" + lab, "step %d: stored complement root %.8g != (t+eps)^(-1/%s) = %.8g" % (step_no, float(inv_const), p, ec))
          return False
    self.V, self.l, self.t = V, l, t
    return True


# ---------------------------------------------------------------- driver A
def gen_A(rng, tier):
  d = int(rng.integers(4, 11))
  k = int(rng.integers(1, d - 2))
  pad = int(rng.integers(0, 4))
  if k + 2 >= d:
    k = d - 3
  return {"driver": "A", "d": d, "k": k, "pad": pad, "m": int(rng.integers(1, d + 2)), "b": float(rng.choice([1.0, 0.999, 0.9, 0.5])),
          "p": int(rng.choice([2, 4, 6])), "eps": float(rng.choice([0.0, 0.0, 1e-6, 1e-3])), "rel": bool(rng.integers(0, 2)),
          "fam": FAMS[int(rng.integers(0, len(FAMS)))], "T": int(rng.integers(3, 13 if tier == "quick" else 41)), "hseed": int(rng.integers(0, 2 ** 31))}


def check_A(c, rec):
  import jax.numpy as jnp
  from precondition import distributed_shampoo as ds
  rng = np.random.default_rng(c["hseed"])
  d, k, pad, b, p = c["d"], c["k"], c["pad"], c["b"], c["p"]
  N = d + pad
  hist, rk = gen_hist(rng, c["fam"], c["T"], d, c["m"], k)
  wit = dict(c)
  tr = Tracker(d, k, b, 1e-10, rec, wit, "ds-direct")
  prev = jnp.zeros((N, k + 2))
  for t, G in enumerate(hist):
    Gp = np.zeros((N, c["m"]))
    Gp[:d] = G
    Rf = ds.frequent_directions_update(None, jnp.asarray(Gp), 0, 0.0, 0.0)
    Rn = np.asarray(Rf, np.float64)
    if np.max(np.abs(Rn @ Rn.T - Gp @ Gp.T)) > 1e-10 * max(np.max(np.abs(Gp @ Gp.T)), 1e-300):
      rec.violation("fd-factor", "frequent_directions_update factor R R' != G G'", wit)
      return
    pV, pl, _, _, ptail, _ = [np.asarray(x, np.float64) for x in ds._fd_low_rank_unpack(prev, k)]
    ridge = c["eps"] * max(pl[0] if c["rel"] else 1.0, 1e-6)
    prev, _ = ds._fd_update_root(Rf, p, rank=k, ridge_epsilon=c["eps"], relative_matrix_epsilon=c["rel"], decay=b,
                                 padding_start=d, prev=prev)
    V, l, inv, const, tail, hz = [np.asarray(x, np.float64) for x in ds._fd_low_rank_unpack(prev, k)]
    rec.count("steps_A")
    if pad and np.max(np.abs(V[d:])) > 0:
      rec.violation("fd-padding-leak:ds-direct", "sketch direction has mass in padding rows", wit)
      return
    ok = tr.step(G, V[:d], l, float(tail), ridge_on_span=ridge, inv=inv, inv_const=float(const), p=p, eps=0.0,
                 zero_step=not np.any(G), lowrank_ok=(c["fam"] == "lowrank" and rk <= k and c["eps"] == 0.0), step_no=t)
    if not ok:
      return
    exp_hz = bool(np.any(l <= 0) or tail <= 0)
    if bool(hz) != exp_hz:
      rec.violation("fd-has-zeros-flag", "has_zeros flag %s but deflated eigenvalues %s tail %.3g" % (bool(hz), l, tail), wit)
      return
  rec.case(util.key_hash(c), tr.deflated_any or c["fam"] in ("lowrank", "zeros"), sample=c)


# ---------------------------------------------------------------- driver B (Tearfree Sketchy, public API)
def gen_B(rng, tier):
  shapes = [(6, 5), (8, 3), (5, 4, 3), (7,), (4, 6), (3, 4, 5), (9, 2), (6, 6)]
  shape = shapes[int(rng.integers(0, len(shapes)))]
  c = {"driver": "B", "shape": list(shape), "k": int(rng.integers(1, 4)), "b": float(rng.choice([1.0, 0.999, 0.9, 0.5])),
       "eps": float(rng.choice([0.0, 1e-7, 1e-3])), "rel": bool(rng.integers(0, 2)), "freq": int(rng.choice([1, 1, 2])),
       "fam": FAMS[int(rng.integers(0, len(FAMS)))], "T": int(rng.integers(3, 11 if tier == "quick" else 31)), "hseed": int(rng.integers(0, 2 ** 31))}
  if rng.random() < 0.35:
    # ekfac_svd: a trial FD step runs on EVERY optimizer step, the sketch (directions, eigenvalues, escaped mass) must still
    # follow the recursion of the update steps only
    c.update(ekfac=True, freq=int(rng.choice([2, 3])), T=max(c["T"], 7))
  return c


def check_B(c, rec):
  import jax
  import jax.numpy as jnp
  from precondition.tearfree import sketchy
  rng = np.random.default_rng(c["hseed"])
  shape = tuple(c["shape"])
  wit = dict(c)
  opt = sketchy.apply(sketchy.Options(rank=c["k"], second_moment_decay=c["b"], epsilon=c["eps"], relative_epsilon=c["rel"], update_freq=c["freq"],
                                     ekfac_svd=bool(c.get("ekfac"))))
  if c.get("ekfac"):
    rec.count("cases_B_ekfac")
  p0 = {"w": jnp.zeros(shape, jnp.float32)}
  st = opt.init(p0)
  upd = jax.jit(opt.update)
  nd = len(shape)
  trs = []
  for ax, d in enumerate(shape):
    trs.append(Tracker(d, min(d, c["k"]), c["b"], 2e-4, rec, wit, "tearfree-sketchy"))
  m = int(np.prod(shape)) // shape[0]
  hist, rk = gen_hist(rng, c["fam"], c["T"], shape[0], m, min(shape[0], c["k"]))
  for t, G0 in enumerate(hist):
    G = np.asarray(G0.reshape(shape), np.float32)
    u, st = upd({"w": jnp.asarray(G)}, st, p0)
    if t % c["freq"] != 0:
      continue
    rec.count("steps_B")
    for ax, d in enumerate(shape):
      a = st.sketches["w"].axes[ax]
      V = np.asarray(a.eigvecs, np.float64)
      l = np.asarray(a.eigvals, np.float64) ** 2
      tail = float(a.tail)
      Gax = np.moveaxis(G.astype(np.float64), ax, 0).reshape(d, -1)
      k = min(d, c["k"])
      und_max = None
      # eps as documented: relative to the largest (undeflated) eigenvalue when relative_epsilon
      tr = trs[ax]
      ok = tr.step(Gax, V, l, tail, zero_step=not np.any(G), step_no=t,
                   lowrank_ok=(ax == 0 and c["fam"] == "lowrank" and rk <= k))
      if not ok:
        return
      inv = np.asarray(a.inv_eigvals, np.float64)
      act = l > 2e-4 * max(np.linalg.norm(tr.C, 2), 1e-300)
      if np.any(act):
        eps = (l[act] + tail).max() * c["eps"] if (c["rel"] and c["eps"] > 0) else c["eps"]
        exp_inv = (l[act] + tail + eps) ** (-1.0 / (2 * nd))
        rec.count("inverse_roots_checked")
        if np.any(np.abs(inv[act] - exp_inv) > 3e-3 * exp_inv):
          rec.violation("fd-inverse-roots:tearfree-sketchy", "step %d axis %d: stored inverse roots %s != (l+t+eps)^(-1/%d) = %s" % (t, ax, inv[act], 2 * nd, exp_inv), wit)
          return
        if tail > 2e-4 * np.linalg.norm(tr.C, 2):
          et = (tail + eps) ** (-1.0 / (2 * nd))
          if abs(float(a.inv_tail) - et) > 3e-3 * et:
            rec.violation("fd-inverse-tail:tearfree-sketchy", "step %d axis %d: inv_tail %.6g != (t+eps)^(-1/%d) = %.6g" % (t, ax, float(a.inv_tail), 2 * nd, et), wit)
            return
  rec.case(util.key_hash(c), any(tr.deflated_any for tr in trs) or c["fam"] in ("lowrank", "zeros"), sample=c)


# ---------------------------------------------------------------- driver C (OCO)
def gen_C(rng, tier):
  n = int(rng.integers(3, 10))
  return {"driver": "C", "n": n, "m": int(rng.integers(2, n + 1)), "alg": str(rng.choice(["S_ADA", "ADA_FD"])), "delta": float(rng.choice([1e-3, 0.1, 1.0])),
          "fam": FAMS[int(rng.integers(0, len(FAMS)))], "T": int(rng.integers(3, 16 if tier == "quick" else 41)), "hseed": int(rng.integers(0, 2 ** 31))}


def check_C(c, rec):
  import jax.numpy as jnp
  from precondition.oco import algorithms as A
  rng = np.random.default_rng(c["hseed"])
  n, m = c["n"], c["m"]
  wit = dict(c)
  hist, rk = gen_hist(rng, c["fam"], c["T"], n, 1, m - 1)
  hp = A.HParams(delta=c["delta"], lr=0.3, sketch_size=m, algorithm=A.Algorithm[c["alg"]])
  init, upd = A.generate_init_update((n,), hp)
  st = init()
  tr = Tracker(n, m - 1, 1.0, 1e-10, rec, wit, "oco")
  for t, G in enumerate(hist):
    st = upd(dict(st), jnp.array(0.0), jnp.asarray(G[:, 0]))
    P = np.asarray(st["P"], np.float64)
    e = np.asarray(st["e"], np.float64)
    rec.count("steps_C")
    if e[-1] != 0:
      rec.violation("fd-last-row:oco", "last sketch row not zero", wit)
      return
    # the sketch keeps m-1 directions; escaped mass is accumulated by the monitor's recurrence, compared with alpha for S_ADA
    tnew = tr.t + max(np.sort(np.linalg.eigvalsh((tr.V * tr.l) @ tr.V.T + G @ G.T))[::-1][m - 1] if m - 1 < n else 0.0, 0.0)
    t_obs = float(st["alpha"]) - c["delta"] if c["alg"] == "S_ADA" else tnew
    ok = tr.step(G, P[:m - 1].T, e[:m - 1] ** 2, t_obs, zero_step=not np.any(G), step_no=t,
                 lowrank_ok=(c["fam"] == "lowrank" and rk <= m - 1), tail_rel_tol=1e-7)
    if not ok:
      return
  rec.case(util.key_hash(c), tr.deflated_any or c["fam"] in ("lowrank", "zeros"), sample=c)


# ---------------------------------------------------------------- driver D (sketches inside distributed_shampoo state)
def gen_D(rng, tier):
  uniform = bool(rng.random() < 0.6)
  if uniform:
    trees = [{"a": [8, 8]}, {"a": [6, 6], "b": [6, 6]}, {"a": [7, 7, 7]}, {"a": [8]}, {"a": [16, 8]}]
  else:
    trees = [{"a": [9, 6]}, {"a": [8, 6], "b": [7]}, {"a": [6, 5, 7]}, {"a": [12, 8]}]
  c = {"driver": "D", "tree": trees[int(rng.integers(0, len(trees)))], "uniform": uniform, "pmap2": bool(rng.random() < 0.35), "k": int(rng.choice([1, 2])), "b": float(rng.choice([1.0, 0.999, 0.9])),
       "eps": float(rng.choice([0.0, 1e-6])), "interval": int(rng.choice([1, 1, 2])), "fam": FAMS[int(rng.integers(0, len(FAMS)))],
       "T": int(rng.integers(3, 9 if tier == "quick" else 21)), "hseed": int(rng.integers(0, 2 ** 31))}
  # (drawn after the fields above so that older witnesses and the earlier case stream stay reproducible)
  if not c["pmap2"] and rng.random() < 0.3:
    c["sharded"] = True          # 2-device mesh, statistics and sketches partitioned over it
  if rng.random() < 0.3:
    # average_grad: the sketch absorbs the MEAN of the gradients since the last sketch update
    c.update(avg=True, interval=int(rng.choice([2, 3])), T=max(c["T"], 7))
  return c


def check_D(c, rec):
  from vmon.refmodels import ds_ref as R
  from vmon.refmodels import shapes as SH
  rng = np.random.default_rng(c["hseed"])
  tree = c["tree"]
  wit = dict(c)
  block = 8
  cfgd = dict(block_size=block, graft_type=1, compression_rank=c["k"], frequent_directions=True, reuse_preconditioner=True,
              beta2=c["b"], matrix_epsilon=c["eps"], relative_matrix_epsilon=True, merge_small_dims_block_size=1,
              best_effort_shape_interpretation=False, preconditioning_compute_steps=c["interval"],
              statistics_compute_steps=c["interval"], start_preconditioning_step=1, learning_rate=0.1)
  params = {k: np.zeros(tuple(s), np.float32) for k, s in tree.items()}
  try:
    # pmap2: data-parallel over two devices, each replica owns a slice of the statistics (and of the sketches)
    if c.get("avg"):
      cfgd["average_grad"] = True
    if c.get("pmap2"):
      run = H.Runner(cfgd, params, "pmap", 2)
    elif c.get("sharded"):
      run = H.Runner(cfgd, params, "sharded", 2)
    else:
      run = H.Runner(cfgd, params, "jit", 1)
  except Exception as e:  # pylint: disable=broad-except
    kind, where = H.classify_exception(e)
    if kind == "reject":
      rec.skip("rejected:" + where)
      return
    rec.violation("crash:" + where, "init raised %s: %s" % (type(e).__name__, str(e)[:200]), wit)
    return
  rec.count("cases_D_pmap2" if c.get("pmap2") else ("cases_D_sharded" if c.get("sharded") else "cases_D_jit"))
  if c.get("avg"):
    rec.count("cases_D_average_grad")
  acc = {}
  # per leaf: list of (block slice, axis, size)
  layout = {}
  sizes_all = []
  for k, s in tree.items():
    ent = []
    for sl in SH.block_slices(tuple(s), block):
      for ax in range(len(s)):
        ent.append((sl, ax, sl[ax].stop - sl[ax].start))
        sizes_all.append(ent[-1][2])
    layout[k] = ent
  max_size = max(sizes_all)
  trackers = {}
  deflated = False
  for t in range(c["T"]):
    fam = c["fam"]
    g = {}
    for k, s in tree.items():
      if fam == "zeros" and t % 3 == 2:
        v = np.zeros(tuple(s))
      elif fam == "scales":
        v = rng.standard_normal(tuple(s)) * 10 ** rng.uniform(-2, 2)
      else:
        v = rng.standard_normal(tuple(s))
      g[k] = np.asarray(v, np.float32)
    pre = run.view()
    try:
      run.step(g)
    except Exception as e:  # pylint: disable=broad-except
      kind, where = H.classify_exception(e)
      if kind == "reject":
        rec.skip("rejected:" + where)
        return
      rec.violation("crash:" + where, "update raised %s: %s" % (type(e).__name__, str(e)[:200]), wit)
      return
    post = run.view()
    if c.get("avg"):
      # documented window: the accumulator restarts on the step after a statistics step and the statistics step
      # absorbs (sum of the window) / interval
      n_ = c["interval"]
      for k in tree:
        acc[k] = np.asarray(g[k], np.float64) if (n_ == 1 or t % n_ == 1 or k not in acc) else acc[k] + np.asarray(g[k], np.float64)
    if t % c["interval"] != 0:
      continue
    if c.get("avg"):
      g = {k: acc[k] / c["interval"] for k in tree}
    rec.count("steps_D")
    for k in tree:
      for i, (sl, ax, n) in enumerate(layout[k]):
        if not c["k"] + 2 < n:
          continue
        Pm = post["params"][k]["precs"][i]
        Pp = pre["params"][k]["precs"][i]
        if Pm.shape != (n, c["k"] + 2):
          rec.violation("fd-packed-shape:ds-state", "stored FD preconditioner shape %s for statistic size %d" % (Pm.shape, n), wit)
          return
        r = c["k"]
        V, inv, const, tail, l = Pm[:, :r], Pm[:r, -2], Pm[0, -1], Pm[1, -1], Pm[-r:, -1]
        pl0 = Pp[-r:, -1][0]
        ridge = c["eps"] * max(pl0, 1e-6)
        key = (k, i)
        if key not in trackers:
          mech = "ds-state" if n == max_size else "ds-state-smaller-than-batch-max"
          trackers[key] = Tracker(n, r, c["b"], 2e-4, rec, wit, mech)
          if n != max_size:
            # classifier of the known finding: statistic size < batch max size (packed sketch truncated)
            trackers[key].mech_override = "fd-sketch-truncated:ds-state-statistic-smaller-than-batch-max"
        blk = np.asarray(g[k], np.float64)[sl]
        Gax = np.moveaxis(blk, ax, 0).reshape(n, -1)
        pexp = 2 * len(tree[k])
        if getattr(trackers[key], "dead", False):
          continue
        ok = trackers[key].step(Gax, V, l, float(tail), ridge_on_span=ridge, inv=inv, inv_const=float(const), p=pexp,
                                zero_step=not np.any(blk), step_no=t)
        if not ok:
          if trackers[key].mech_override:
            trackers[key].dead = True     # known-finding tracker: keep observing the other statistics
            continue
          return
        deflated = deflated or trackers[key].deflated_any
  rec.case(util.key_hash(c), deflated or c["fam"] == "zeros", sample=c)
  rec.count("cases_D_uniform" if c["uniform"] else "cases_D_mixed")


DRIVERS = {"A": (gen_A, check_A), "B": (gen_B, check_B), "C": (gen_C, check_C), "D": (gen_D, check_D)}


def run(spec, rec):
  rng = util.rng_for(spec["seed"], PROPERTY, spec["name"])
  gen, chk = DRIVERS[spec["driver"]]
  for i in range(spec["n"]):
    if i % 8 == 7:
      util.release_compiled_code()
    if time.time() > rec.deadline:
      rec.count("dropped_for_budget", spec["n"] - i)
      break
    with contextlib.redirect_stdout(io.StringIO()):
      chk(gen(rng, spec.get("tier", "quick")), rec)


def replay(witness, rec):
  w = util.dec(witness)
  DRIVERS[w["driver"]][1](w, rec)
