"""C01 — inverse p-th root is accurate and its reported error is honest.

Observed: every call of matrix_inverse_pth_root (coupled Newton, eigh, LOBPCG-
deflated) made by the workload: direct calls on generated PSD matrices, and
in-situ calls tapped inside real optimizer runs (vmon.taps).
Oracle (float64): finiteness, exact-zero padding, symmetry, residual
max|X^p (A+dI) - I| <= err + c*n*p*u*kappa whenever err < 0.1, and the Rayleigh
bound on the reported largest-eigenvalue estimate.
"""
import time

import numpy as np

from vmon import util
from vmon.refmodels import roots as R

PROPERTY = "C01"
LEVEL = "exploration"
RULE = ("direct calls: PSD matrices n=1..16 (thorough ..48), rank 1..n, geometric spectrum with spread<=1e8 after ridge "
        "(rejection-sampled so kappa(A+dI)<=1e8), scale 1e-6..1e6, identity padding 0..4, p 1..8, eps 1e-12..1e-3, "
        "relative/absolute ridge, {Newton, eigh, LOBPCG top-k 1..2 where 5k<n}, float64 inputs (residual oracle) and "
        "float32 inputs (structural clauses), special families {1x1, 2x2, identity, rank-1, repeated eigenvalues, singular, "
        "all-padding}; in-situ: every root computed inside distributed_shampoo runs on random gradient histories. "
        "Non-trivial: call with err<0.1 whose residual was checked; distinct by hash of parameters")
ASSUMPTIONS = [
    "ridge d is reconstructed from the documented formula with a replica of the documented power iteration, cross-checked against the reported max_eigen_value; when they disagree by >2e-7 the reported value is used with 4e-7 extra slack",
    "acceptance threshold 0.1 (the optimizer default)",
    "kappa(A+dI) <= 1e8 by construction; float32 inputs are checked structurally only",
]
DECIDING = ["calls", "residual_checked", "padding_checked", "symmetry_checked", "maxev_checked", "calls_insitu"]
MIN_NONTRIVIAL = 100
TIMEOUT = {"quick": 1200, "thorough": 7200}
THRESH = 0.1
FAMS = ["generic", "generic", "generic", "identity", "rank1", "repeated", "singular", "allpad", "tiny2x2"]


def shards(tier, seed):
  maxN = 20 if tier == "quick" else 52
  per = 70 if tier == "quick" else 400
  out = []
  ns = list(range(1, maxN + 1))
  for i in range(16):
    mine = ns[i::16]
    out.append({"name": "direct%d" % i, "env": {"x64": True}, "kind": "direct", "N": mine, "per": per,
                "budget_s": 900 if tier == "quick" else 6000})
  out.append({"name": "direct32", "env": {"x64": False}, "kind": "direct", "N": [3, 7, 12], "per": per,
              "budget_s": 900 if tier == "quick" else 6000})
  for i in range(4):
    out.append({"name": "insitu%d" % i, "env": {"x64": True}, "kind": "insitu", "n": 6 if tier == "quick" else 80,
                "budget_s": 900 if tier == "quick" else 6000})
  return out


def gen_case(rng, N):
  for _ in range(200):
    pad = int(rng.integers(0, min(4, N - 1) + 1)) if N > 1 else 0
    fam = FAMS[int(rng.integers(0, len(FAMS)))]
    if fam == "allpad":
      pad = N
    n = N - pad
    p = int(rng.integers(1, 9))
    eps = float(10 ** rng.uniform(-12, -3))
    rel = bool(rng.integers(0, 2))
    method = ["newton", "newton", "eigh", "lobpcg"][int(rng.integers(0, 4))]
    k = 0
    if method == "lobpcg":
      k = int(rng.integers(1, 3))
      if not (5 * k < N and n >= 2):
        method = "newton"
        k = 0
    scale = float(10 ** rng.uniform(-6, 6))
    spread = float(10 ** rng.uniform(0, 8))
    rank = int(rng.integers(1, n + 1)) if n else 0
    if n == 0:
      A = np.zeros((0, 0))
    elif fam == "identity":
      A = np.eye(n) * scale
    elif fam == "rank1":
      v = rng.standard_normal(n)
      A = np.outer(v, v) * scale
    elif fam == "repeated":
      q, _ = np.linalg.qr(rng.standard_normal((n, n)))
      ev = np.where(np.arange(n) < max(1, n // 2), 1.0, 1.0 / min(spread, 1e4))
      A = (q * ev) @ q.T * scale
    elif fam == "singular":
      rank = max(1, n // 2)
      A = R.random_psd(rng, n, rank, min(spread, 1e3), scale)
    elif fam == "tiny2x2" and n >= 2:
      A = R.random_psd(rng, n, n, 10.0, scale)
    else:
      A = R.random_psd(rng, n, rank, spread, scale)
    A = (A + A.T) / 2
    if n:
      lam = np.linalg.eigvalsh(A)
      base = max(lam[-1], 0.0) if rel else 1.0
      floor = 1e-6 if method == "eigh" else 1e-25
      dap = eps * max(base, floor)
      kap = (lam[-1] + dap) / (max(lam[0], 0.0) + dap)
      if kap > 1e8:
        continue
    return {"N": N, "n": n, "pad": pad, "p": p, "eps": eps, "rel": rel, "method": method, "k": k,
            "lobpcg_iters": int(rng.choice([0, 0, 30])) if method == "lobpcg" else 0,
            "family": fam, "A": A}
  return None


_JIT = {}


def call_root(A_padded, p, eps, rel, method, k, padding_start, dtype, lobpcg_iters=0):
  import jax
  import jax.numpy as jnp
  from precondition import distributed_shampoo as ds
  key = (A_padded.shape[0], rel, method, k, str(dtype), padding_start is None, lobpcg_iters)
  if key not in _JIT:
    if padding_start is None:
      def f(a, pp, e):
        return ds.matrix_inverse_pth_root(a, pp, ridge_epsilon=e, relative_matrix_epsilon=rel,
                                          lobpcg_topk_precondition=k, lobpcg_max_iter=lobpcg_iters, eigh=(method == "eigh"))
    else:
      def f(a, pp, e, ps):
        return ds.matrix_inverse_pth_root(a, pp, ridge_epsilon=e, relative_matrix_epsilon=rel,
                                          lobpcg_topk_precondition=k, lobpcg_max_iter=lobpcg_iters, padding_start=ps,
                                          eigh=(method == "eigh"))
    _JIT[key] = jax.jit(f)
  a = jnp.asarray(A_padded, dtype)
  if padding_start is None:
    return _JIT[key](a, jnp.asarray(p, jnp.int32), jnp.asarray(eps, dtype))
  return _JIT[key](a, jnp.asarray(p, jnp.int32), jnp.asarray(eps, dtype), jnp.asarray(padding_start, jnp.int32))


def _lobpcg_breaks_down(c, in_dtype):
  """True iff (a) the input has numerical rank < k and (b) jax's own lobpcg_standard, called by the harness on the masked
  matrix with the routine's search directions and iteration count, returns non-finite eigenpairs."""
  import jax.numpy as jnp
  from jax.experimental.sparse import linalg
  A = np.asarray(c["A"], np.float64)
  n, N, k = c["n"], c["N"], c["k"]
  if n == 0:
    return False
  lam = np.linalg.eigvalsh(A)
  u_in = 2.0 ** -53 if in_dtype == "float64" else 2.0 ** -24
  if int(np.sum(lam > 64 * n * u_in * max(lam[-1], 0.0))) >= k:
    return False
  M = np.zeros((N, N), np.float64 if in_dtype == "float64" else np.float32)
  M[:n, :n] = A
  sd = jnp.concatenate((jnp.eye(k), jnp.zeros((N - k, k))), axis=0)
  iters = c.get("lobpcg_iters", 0) or k
  try:
    ev, vec, _ = linalg.lobpcg_standard(jnp.asarray(M), sd.astype(M.dtype), iters)
  except Exception:  # pylint: disable=broad-except
    return False
  return not (np.all(np.isfinite(np.asarray(ev))) and np.all(np.isfinite(np.asarray(vec))))


def check_call(c, X, metrics, rec, wit, in_dtype, compute_f64, source="direct"):
  """The oracle, shared by direct and in-situ observations.

  c: dict(N, n, p, eps, rel, method, k, A (n x n float64, exactly what the routine received)).
  """
  n, N, p = c["n"], c["N"], c["p"]
  A = np.asarray(c["A"], np.float64)
  X = np.asarray(X, np.float64)
  err = float(metrics["err"])
  rec.count("calls")
  rec.count("calls_" + c["method"])
  rec.count("calls_" + source)
  if X.shape != (N, N):
    rec.violation("shape", "root shape %s for input %d" % (X.shape, N), wit)
    return
  if not np.all(np.isfinite(X)) and c["method"] == "lobpcg" and err != err and _lobpcg_breaks_down(c, in_dtype):
    # known finding (known_findings.json): jax's lobpcg_standard itself returns NaN eigenpairs when the matrix has numerical
    # rank < k; the routine then returns a NaN root WITH a NaN error (so the optimizer's gate rejects it)
    rec.violation("lobpcg-breakdown-rank-below-k", "lobpcg_standard returns non-finite eigenpairs for a matrix of numerical rank < k=%d "
                  "(n=%d p=%d); root and reported error are NaN" % (c["k"], n, p), wit)
    return
  if not np.all(np.isfinite(X)):
    rec.violation("non-finite-root:" + c["method"], "%s returned a non-finite matrix (err=%g, n=%d p=%d)" % (c["method"], err, n, p), wit)
    return
  rec.count("padding_checked")
  if N > n and (np.any(X[n:, :] != 0) or np.any(X[:, n:] != 0)):
    rec.violation("padding-nonzero:" + c["method"], "non-zero entry %.3g in padding rows/columns" % max(np.abs(X[n:, :]).max(), np.abs(X[:, n:]).max()), wit)
    return
  if n == 0:
    if err != 0.0:
      rec.violation("all-padding-error", "all-padding input reports error %g" % err, wit)
    return
  lam = np.linalg.eigvalsh(A)
  lmax, lmin = max(lam[-1], 0.0), lam[0]
  u_out = 2.0 ** -53 if (in_dtype == "float64") else 2.0 ** -24
  u = u_out if compute_f64 else 2.0 ** -24
  mev = metrics.get("max_ev")
  # ---- ridge reconstruction
  tol_pi = 1e-6
  start_dt = np.float64 if compute_f64 else np.float32
  extra = 0.0
  if c["rel"]:
    if c["method"] == "lobpcg":
      base = float(mev)
      extra = 4e-7
    else:
      base = R.power_iteration_replica(A, N, tol=tol_pi, start_dtype=start_dt)
      if c["method"] == "newton" and mev is not None:
        if abs(float(mev) - base) > 2e-7 * abs(base) + 1e-37:
          rec.count("replica_disagrees_with_reported_maxev")
          base = float(mev)
          extra = 4e-7
  else:
    base = 1.0
  if c["method"] == "eigh":
    d = c["eps"] * max(base, 1e-6)
  elif c["method"] == "lobpcg":
    d = c["eps"] * max(base, 1e-25)
  else:
    retries = int(round(float(metrics.get("retries", 1))))
    d = c["eps"] * max(base, 1e-25) * 10.0 ** (max(retries, 1) - 1)
    if retries > 1:
      rec.count("newton_retried")
  kappa = (lmax + d) / (max(lmin, 0.0) + d)
  in_domain = lmin >= -1e-12 * max(lmax, 1e-300) and kappa <= 1e8 * 1.01
  # ---- Rayleigh bound
  if c["rel"] and c["method"] in ("newton", "lobpcg") and mev is not None:
    rec.count("maxev_checked")
    if float(mev) > lmax * (1 + 2e-6) + 1e-37 and lmin >= -1e-6 * lmax:
      rec.violation("maxev-above-true:" + c["method"], "reported max eigenvalue %.9g exceeds true lambda_max %.9g" % (float(mev), lmax), wit)
      return
  if not in_domain:
    rec.count("out_of_domain_calls")
    return
  # ---- symmetry
  rec.count("symmetry_checked")
  Xr = X[:n, :n]
  asym = np.max(np.abs(Xr - Xr.T))
  stol = 8 * n * u * kappa * np.max(np.abs(Xr)) + 1e-300
  rec.maxi("asym_over_tol", asym / stol)
  if asym > stol:
    rec.violation("asymmetric:" + c["method"], "root asymmetric by %.3g (tol %.3g, kappa %.3g)" % (asym, stol, kappa), wit)
    return
  if err != err:
    rec.count("nan_error_reported")
    return
  if err < THRESH:
    if (not compute_f64 and kappa > 1e2) or (in_dtype != "float64" and kappa > 1e4):
      rec.count("accepted_structural_only")
      return
    res = R.residual(Xr, A, d, p)
    # float32 inputs computed in float64: the root is rounded to float32 on return, u = 2^-24
    slack = 64 * n * p * (u if in_dtype == "float64" else 2.0 ** -24) * kappa + extra + err * 2.0 ** -22   # reported figure is a float32
    if not compute_f64:
      slack = 64 * n * p * 2.0 ** -24 * kappa * 4 + extra + err * 2.0 ** -22 + 1e-5   # float32 arithmetic throughout
      rec.count("residual_checked_float32_compute")
    if in_dtype != "float64":
      rec.count("residual_checked_float32_output")
    rec.count("residual_checked")
    rec.count("residual_checked_" + c["method"])
    rec.maxi("res_minus_err_over_slack", (res - err) / slack)
    rec.case(util.key_hash([c["N"], n, p, c["eps"], c["rel"], c["method"], c["k"], c.get("family"), float(A.ravel()[0]) if A.size else 0.0]), True,
             sample={k_: c[k_] for k_ in ("N", "n", "p", "eps", "rel", "method", "k", "family") if k_ in c})
    if res > err + slack:
      rec.violation("dishonest-error:" + c["method"],
                    "%s: reported error %.3g but max|X^p(A+dI)-I| = %.3g (> err + slack %.3g; n=%d p=%d kappa=%.3g d=%.3g)" % (
                        c["method"], err, res, slack, n, p, kappa, d), wit)
  else:
    rec.count("rejected_calls")
    rec.count("rejected_" + c["method"])


def check_direct(c, rec, x64):
  n, N = c["n"], c["N"]
  A = np.asarray(c["A"], np.float64)
  in_dtype = c.get("in_dtype", "float64" if x64 else "float32")
  npdt = np.float64 if in_dtype == "float64" else np.float32
  A = A.astype(npdt).astype(np.float64)      # exactly what the routine receives
  Ap = np.zeros((N, N))
  Ap[:n, :n] = A
  if N > n:
    Ap[n:, n:] = np.eye(N - n)
  wit = dict(c, in_dtype=in_dtype)
  use_ps = (N > n) or c.get("force_ps", False)
  if n == N and c["method"] != "newton":
    use_ps = True
  try:
    X, m = call_root(Ap.astype(npdt), c["p"], c["eps"], c["rel"], c["method"], c["k"],
                     n if use_ps else None, npdt, c.get("lobpcg_iters", 0))
  except Exception as e:  # pylint: disable=broad-except
    import traceback
    fr = [f for f in traceback.extract_tb(e.__traceback__) if "/precondition/" in f.filename]
    where = fr[-1].name if fr else "?"
    if where == "?" and isinstance(e, (ValueError, NotImplementedError)):
      rec.skip("rejected-by-jax:%s" % str(e)[:40])
      return
    rec.count("calls")
    rec.violation("crash:%s@%s" % (type(e).__name__, where), "%s: %s (N=%d n=%d method=%s)" % (type(e).__name__, str(e)[:160], N, n, c["method"]), wit)
    return
  metrics = {"err": float(m.inverse_pth_root_errors), "retries": float(m.total_retries),
             "max_ev": float(m.max_eigen_value) if c["method"] != "eigh" else None}
  cc = dict(c, A=A)
  rec.count("family_" + c["family"])
  check_call(cc, np.asarray(X), metrics, rec, wit, in_dtype, compute_f64=x64)


def run_insitu(spec, rec):
  """Taps every inverse-root call made inside real optimizer runs (harness-side rebinding, no source edit)."""
  import jax
  import jax.numpy as jnp
  from precondition import distributed_shampoo as ds
  from vmon import dsharness as H
  from vmon.monitors import c02
  events = []
  orig = ds.matrix_inverse_pth_root
  state = {"cfg": None}

  def tapped(matrix, p, *a, **kw):
    X, m = orig(matrix, p, *a, **kw)

    def cb(matrix, p, X, err, retries, mev, ps):
      events.append((np.asarray(matrix), int(p), np.asarray(X), float(err), float(retries), float(mev), int(ps)))
    jax.debug.callback(cb, matrix, p, X, m.inverse_pth_root_errors, m.total_retries, m.max_eigen_value, kw.get("padding_start"))
    return X, m
  ds.matrix_inverse_pth_root = tapped
  try:
    rng = util.rng_for(spec["seed"], PROPERTY, spec["name"])
    for i in range(spec["n"]):
      if i % 8 == 7:
        util.release_compiled_code()
      if time.time() > rec.deadline:
        rec.count("dropped_for_budget", spec["n"] - i)
        break
      case = c02.gen_case(rng)
      case["mode"] = "jit"
      cfgd = case["cfg"]
      params, hist = c02.materialize(case)
      try:
        runner = H.Runner(cfgd, params, "jit", 1)
        for g in hist:
          runner.step(g)
          jax.effects_barrier()
      except Exception as e:  # pylint: disable=broad-except
        rec.skip("insitu-run-raised:%s" % type(e).__name__)
        events.clear()
        continue
      rec.count("insitu_runs")
      for (M, p, X, err, retries, mev, ps) in events:
        N = M.shape[0]
        n = ps
        A = np.asarray(M[:n, :n], np.float64)
        c = {"N": N, "n": n, "pad": N - n, "p": p, "eps": cfgd["matrix_epsilon"], "rel": cfgd["relative_matrix_epsilon"],
             "method": "eigh" if cfgd["eigh"] else "newton", "k": 0, "family": "insitu", "A": A}
        wit = {"insitu": True, "case": case, "p": p, "padding_start": ps, "matrix": M}
        check_call(c, X, {"err": err, "retries": retries, "max_ev": None if cfgd["eigh"] else mev}, rec, wit, "float32", True, source="insitu")
      events.clear()
  finally:
    ds.matrix_inverse_pth_root = orig


def run(spec, rec):
  if spec.get("kind") == "insitu":
    return run_insitu(spec, rec)
  import jax
  x64 = bool(jax.config.jax_enable_x64)
  rng = util.rng_for(spec["seed"], PROPERTY, spec["name"])
  if x64 and spec["name"].endswith("0"):
    # fixed regression input of the known finding lobpcg-breakdown-rank-below-k (17x17 rank-one matrix, k = 2), plus
    # rank-one / rank-two matrices of other sizes with k above the rank
    import json
    import os
    with open(os.path.join(os.path.dirname(os.path.dirname(os.path.abspath(__file__))), "data", "c01_lobpcg_rank1.json")) as f:
      fixed = util.dec(json.load(f))
    check_direct(fixed, rec, x64)
    rec.count("rank_below_k_cases")
    r2 = np.random.default_rng(7)
    for n, r, k in [(12, 1, 2), (17, 1, 3), (23, 2, 3), (11, 1, 2), (29, 1, 2), (16, 2, 3)]:
      V = r2.standard_normal((n, r)) * 10 ** r2.uniform(-2, 3)
      check_direct({"N": n + 4, "n": n, "pad": 4, "p": int(r2.integers(1, 9)), "eps": 1e-6, "rel": True, "method": "lobpcg", "k": k,
                    "lobpcg_iters": 0, "family": "rank-below-k", "A": V @ V.T}, rec, x64)
      rec.count("rank_below_k_cases")
  todo = [(N, i) for i in range(spec["per"]) for N in spec["N"]]
  for j, (N, i) in enumerate(todo):
    if time.time() > rec.deadline:
      rec.count("dropped_for_budget", len(todo) - j)
      break
    c = gen_case(rng, N)
    if c is None:
      rec.skip("generator-gave-up")
      continue
    if x64 and rng.random() < 0.15:
      c["in_dtype"] = "float32"
    check_direct(c, rec, x64)


def replay(witness, rec):
  import jax
  w = util.dec(witness)
  if w.get("insitu"):
    # re-execute the tapped call directly on the recorded input matrix
    cfgd = w["case"]["cfg"]
    M = np.asarray(w["matrix"])
    n = int(w["padding_start"])
    c = {"N": M.shape[0], "n": n, "pad": M.shape[0] - n, "p": int(w["p"]), "eps": cfgd["matrix_epsilon"],
         "rel": cfgd["relative_matrix_epsilon"], "method": "eigh" if cfgd["eigh"] else "newton", "k": 0,
         "family": "insitu", "A": np.asarray(M[:n, :n], np.float64), "in_dtype": "float32", "force_ps": True}
    check_direct(c, rec, bool(jax.config.jax_enable_x64))
    return
  check_direct(w, rec, bool(jax.config.jax_enable_x64))
