"""C15 — the Tearfree optimizer equals its documented composition.

Observed: every transition of tearfree(lr, options).update through the public API.
Oracle:
  (1) step-wise conformance with the independent float64 reference (vmon.refmodels.tf_ref):
      Shampoo under x64 (float64, rel 1e-8), Sketchy under float32 (rel 2e-3 on well-separated spectra);
  (2) exact lr-linearity: runs with lr and 2*lr (and 2*schedule) give doubled updates (to 4 ulps; bitwise count reported);
  (3) merge / pad metamorphism: the same values presented in a shape that merges or pads differently
      deliver the same values on the real entries.
"""
import contextlib
import io
import time

import numpy as np

from vmon import dsharness as H
from vmon import util
from vmon.refmodels import tf_ref

PROPERTY = "C15"
LEVEL = "exploration"
RULE = ("random configurations: second-order {Shampoo (x64 on), Sketchy (x64 off)} x block {2,3,4} x merge limit {2,4,6,100} x statistics/"
        "preconditioner frequencies 1..3 x decay {1,.9,.99} x graft {none,sgd,rmsprop,adafactor} x start {0,1,3} x skip rules x momentum (ema, nesterov, decay "
        "{0,.5,.9}) x weight decay before/after momentum x {constant, halving-schedule} lr x trees of 1-2 leaves x 6-step histories incl. per-block "
        "scale disparity 1e-3..1e3; plus lr-linearity pairs and merge/pad metamorphic pairs.  evaluations = transitions compared; non-trivial = "
        "case with a preconditioned (post-start, unmasked) transition; distinct by hash of the case")
ASSUMPTIONS = ["eigenvalues within a factor 2 of the 1e-6 cut-off make the reference discontinuous: such cases are skipped-ambiguous",
               "Sketchy reference comparisons are skipped when the spectrum has no relative gap >= 1e-2 at the sketch rank (float32 SVD)"]
DECIDING = ["transitions_compared", "lr_linearity_pairs", "metamorphic_pairs", "shampoo_cases", "sketchy_cases"]
MIN_NONTRIVIAL = 30
MAX_SKIP_FRACTION = 0.35
TIMEOUT = {"quick": 1500, "thorough": 7200}
SHAPES = [(4, 3), (6,), (2, 3, 2), (5, 2), (8, 4), (4, 4), (6, 3), (2, 2, 3), (9,), (12, 2),
          # first large axis exactly one block, second several blocks; padded second axis; three axes
          (4, 8), (3, 6), (2, 6), (3, 9), (4, 7), (2, 4, 6), (3, 4, 7)]


def shards(tier, seed):
  n = 14 if tier == "quick" else 200
  out = []
  for i in range(9):
    out.append({"name": "sh%d" % i, "env": {"x64": True}, "second": "shampoo", "n": n, "budget_s": 1200 if tier == "quick" else 6500})
  for i in range(5):
    out.append({"name": "sk%d" % i, "env": {"x64": False}, "second": "sketchy", "n": n, "budget_s": 1200 if tier == "quick" else 6500})
  for i in range(2):
    out.append({"name": "meta%d" % i, "env": {"x64": True}, "second": "meta", "n": n, "budget_s": 1200 if tier == "quick" else 6500})
  return out


def gen_case(rng, second):
  o = {"second": second, "merge_dims": int(rng.choice([2, 4, 6, 100])), "block": int(rng.choice([2, 3, 4])),
       "sfreq": int(rng.choice([1, 1, 2])), "pfreq": int(rng.choice([1, 2, 3])), "decay": float(rng.choice([1.0, 0.9, 0.99])),
       "rank": int(rng.choice([1, 2, 3])), "sk_eps": float(rng.choice([1e-7, 1e-3, 0.0])), "sk_rel_eps": bool(rng.integers(0, 2)),
       "graft": str(rng.choice(["none", "sgd", "rmsprop", "adafactor"])), "gdecay": float(rng.choice([1.0, 0.9])), "geps": 1e-8,
       "af_min_dim": int(rng.choice([2, 128])), "af_param_scale": bool(rng.integers(0, 2)), "af_clip": float(rng.choice([1.0, 2.0])),
       "start": int(rng.choice([0, 1, 3])), "skip_rank1": bool(rng.integers(0, 2)), "dim_gt": int(rng.choice([4096, 4096, 7])),
       "ema": bool(rng.integers(0, 2)), "nesterov": bool(rng.integers(0, 2)), "mdecay": float(rng.choice([0.0, 0.9, 0.5])),
       "wd": float(rng.choice([0.0, 0.1])), "wd_after": bool(rng.integers(0, 2)), "lr": float(rng.choice([0.1, 1.0])),
       "lr_sched": bool(rng.random() < 0.25)}
  if second == "sketchy":
    o["pfreq"] = o["sfreq"]
  nleaf = int(rng.integers(1, 3))
  pool = SHAPES
  if second == "sketchy":
    # every unfolding must have rank > sketch rank from the first step on, otherwise the escaped mass is
    # exactly zero and the code's `tail > 0` test is decided by rounding noise (skipped-ambiguous)
    pool = [(4, 3), (6, 4), (5, 4), (8, 4), (4, 4), (6, 3), (3, 4, 3), (5, 5)]
    o["rank"] = int(rng.choice([1, 2]))
    o["merge_dims"] = 2
  tree = {"p%d" % i: list(pool[int(rng.integers(0, len(pool)))]) for i in range(nleaf)}
  return {"opts": o, "tree": tree, "T": 6, "scale_blocks": bool(rng.random() < 0.4), "hseed": int(rng.integers(0, 2 ** 31))}


def build(o, lr_mult=1.0):
  from precondition.tearfree import grafting, momentum, optimizer as tfo, second_order, shampoo as tshampoo, sketchy
  gt = {"none": grafting.GraftingType.NONE, "sgd": grafting.GraftingType.SGD, "rmsprop": grafting.GraftingType.RMSPROP,
        "adafactor": grafting.GraftingType.ADAFACTOR}[o["graft"]]
  if o["graft"] == "adafactor" and o["gdecay"] == 1.0:
    o["gdecay"] = 0.9      # AdaFactor needs a decay in (0, 1)
  if o["second"] == "sketchy":
    so = second_order.Options(merge_dims=o["merge_dims"], second_order_type=second_order.SecondOrderType.SKETCHY, shampoo_options=None,
                              sketchy_options=sketchy.Options(rank=o["rank"], second_moment_decay=o["decay"], epsilon=o["sk_eps"],
                                                              relative_epsilon=o["sk_rel_eps"], update_freq=o["sfreq"]))
  else:
    so = second_order.Options(merge_dims=o["merge_dims"], shampoo_options=tshampoo.Options(
        block_size=o["block"], update_preconditioners_freq=o["pfreq"], update_statistics_freq=o["sfreq"], second_moment_decay=o["decay"]))
  opts = tfo.TearfreeOptions(
      grafting_options=grafting.Options(grafting_type=gt, second_moment_decay=o["gdecay"] if o["graft"] in ("rmsprop", "adafactor") else 0.0,
                                        min_dim_size_to_factor=o.get("af_min_dim", 128), multiply_by_parameter_scale=o.get("af_param_scale", True),
                                        clipping_threshold=o.get("af_clip", 1.0),
                                        start_preconditioning_step=o["start"], epsilon=o["geps"],
                                        skip_preconditioning_rank1=o["skip_rank1"], skip_preconditioning_any_dim_gt=o["dim_gt"]),
      second_order_options=so,
      momentum_options=momentum.Options(ema=o["ema"], nesterov=o["nesterov"], momentum_decay=o["mdecay"], weight_decay=o["wd"],
                                        weight_decay_after_momentum=o["wd_after"]))
  import jax.numpy as jnp
  base = o["lr"] * lr_mult
  if o["lr_sched"]:
    lr = lambda t: jnp.asarray(base, jnp.float32) * jnp.power(jnp.float32(0.5), (jnp.asarray(t) // 2).astype(jnp.float32))
  else:
    lr = base
  return tfo.tearfree(lr, opts)


def ref_lr(o):
  if o["lr_sched"]:
    return lambda t: float(np.float32(o["lr"])) * 0.5 ** (t // 2)   # the harness builds the schedule in float32
  return o["lr"]


def materialize(case):
  if "grads" in case:
    return ({k: np.asarray(v) for k, v in case["params"].items()}, [{k: np.asarray(v) for k, v in g.items()} for g in case["grads"]])
  rng = np.random.default_rng(case["hseed"])
  tree = case["tree"]
  params = {k: rng.standard_normal(tuple(s)).astype(np.float32) for k, s in tree.items()}
  hist = []
  for t in range(case["T"]):
    g = {}
    for k, s in tree.items():
      v = rng.standard_normal(tuple(s)) * 10 ** rng.uniform(-1, 1)
      if case.get("scale_blocks"):
        sc = 10 ** rng.uniform(-3, 3, size=s[0])
        sc = np.repeat(10 ** rng.uniform(-3, 3, size=(s[0] + 1) // 2), 2)[:s[0]]
        v = v * sc.reshape((s[0],) + (1,) * (len(s) - 1))
      g[k] = v.astype(np.float32)
    hist.append(g)
  return params, hist


def run_real(opt, params, hist, dtype):
  import jax
  import jax.numpy as jnp
  jp = {k: jnp.asarray(v, dtype) for k, v in params.items()}
  with contextlib.redirect_stdout(io.StringIO()):
    st = opt.init(jp)
    upd = jax.jit(opt.update)
    outs = []
    for g in hist:
      u, st = upd({k: jnp.asarray(v, dtype) for k, v in g.items()}, st, jp)
      outs.append({k: np.asarray(v) for k, v in u.items()})
  return outs


def check_case(case, rec):
  import jax
  import jax.numpy as jnp
  o, tree = case["opts"], case["tree"]
  params, hist = materialize(case)
  wit = dict(case, params=params, grads=hist)
  x64 = bool(jax.config.jax_enable_x64)
  dtype = jnp.float64 if (o["second"] == "shampoo" and x64) else jnp.float32
  try:
    with contextlib.redirect_stdout(io.StringIO()):
      opt = build(o)
      opt2 = build(o, 2.0)
    outs = run_real(opt, params, hist, dtype)
  except Exception as e:  # pylint: disable=broad-except
    kind, where = H.classify_exception(e)
    if kind == "reject":
      rec.skip("rejected:" + where)
    else:
      rec.violation("crash:" + where, "tearfree raised %s: %s" % (type(e).__name__, str(e)[:200]), wit)
    return
  # (2) lr-linearity: exactly doubled
  outs2 = run_real(opt2, params, hist, dtype)
  rec.count("lr_linearity_pairs")
  for t, (a, b) in enumerate(zip(outs, outs2)):
    for k in a:
      # the two runs are separately compiled XLA programs (constant folding / FMA contraction may differ by an ulp),
      # so "exactly linear" is checked to 4 ulps of the leaf's largest entry, not bitwise
      ulp = np.finfo(b[k].dtype).eps
      rec.count("lr_linearity_bitwise" if np.array_equal(2 * a[k], b[k]) else "lr_linearity_within_4ulp")
      if np.max(np.abs(2 * a[k].astype(np.float64) - b[k].astype(np.float64))) > 4 * ulp * np.max(np.abs(b[k])):
        rec.violation("not-linear-in-lr", "step %d leaf %s: update with 2*lr is not exactly twice the update with lr (max rel diff %.3g)" % (
            t, k, np.max(np.abs(2 * a[k] - b[k])) / (np.max(np.abs(b[k])) + 1e-300)), wit)
        return
  # (1) reference conformance
  ro = dict(o, lr=ref_lr(o))
  ref = tf_ref.TearfreeRef(ro, params)
  nontrivial = False
  tol = 1e-7 if dtype == jnp.float64 else 3e-3
  for t, g in enumerate(hist):
    g64 = {k: np.asarray(jnp.asarray(v, dtype), np.float64) for k, v in g.items()}
    p64 = {k: np.asarray(jnp.asarray(v, dtype), np.float64) for k, v in params.items()}
    exp = ref.step(g64, p64)
    if ref.info.get("near_cutoff"):
      rec.skip("eigenvalue-near-1e-6-cutoff")
      return
    if ref.info.get("tail_sign_ambiguous"):
      rec.skip("sketchy-tail-sign-decided-by-rounding")
      return
    if o["second"] == "sketchy":
      # float32 SVD: require a spectral gap at the sketch rank on every axis, else the reference is ill-posed
      for k in tree:
        if ref.masked(tuple(tree[k])):
          continue
        for a in ref.st.get(k, []):
          w = a.get("spectrum")
          kk = len(a["lam"])
          if w is not None and kk < len(w) and w[0] > 0:
            if (w[kk - 1] - w[kk]) < 1e-2 * w[0] or (kk >= 2 and np.min(-np.diff(w[:kk])) < 1e-2 * w[0]):
              rec.skip("sketchy-no-spectral-gap")
              return
    for k in sorted(tree):
      got = np.asarray(outs[t][k], np.float64)
      e = exp[k]
      rec.count("transitions_compared")
      if not ref.masked(tuple(tree[k])) and t >= o["start"]:
        nontrivial = True
      if got.shape != e.shape:
        rec.violation("update-shape", "update shape %s for leaf %s" % (got.shape, tuple(tree[k])), wit)
        return
      err = np.max(np.abs(got - e)) / (np.max(np.abs(e)) + 1e-300) if e.size else 0.0
      rec.maxi("relerr_over_tol_" + o["second"], err / tol)
      if err > tol:
        rec.violation("composition-mismatch:" + o["second"],
                      "step %d leaf %s %s: update differs from -lr*momentum(wd(graft(second_order(merge/pad g)))) by %.3g rel (tol %.1g); opts %s" % (
                          t, k, tuple(tree[k]), err, tol, {kk: o[kk] for kk in ("graft", "start", "block", "merge_dims", "decay", "sfreq", "pfreq", "ema", "nesterov", "mdecay", "wd", "wd_after")}), wit)
        return
  rec.case(util.key_hash({k: case[k] for k in ("opts", "tree", "hseed", "scale_blocks")}), nontrivial,
           sample={"opts": o, "tree": tree})
  rec.count(o["second"] + "_cases")


# ------------------------------------------------------------------ merge / pad metamorphism
def check_meta(case, rec):
  """Same values, different presentation: (a) a shape whose merged form is identical (unit dims / split dims that merge back),
  (b) padding: block b vs a block that divides the dims (no padding) must agree on ... only (a) is exact; for (b) we compare
  the padded run against the reference on the real entries (done by check_case), so here (a) only."""
  import jax.numpy as jnp
  rng = np.random.default_rng(case["hseed"])
  o = case["opts"]
  pairs = [((2, 3, 4), (6, 4)), ((2, 2, 5), (4, 5)), ((6, 1, 4), (6, 4)), ((1, 5, 3), (5, 3)), ((2, 3), (6,)), ((3, 2, 4), (6, 4)), ((4, 1, 1, 3), (4, 3))]
  a, b = pairs[int(rng.integers(0, len(pairs)))]
  o = dict(o, merge_dims=max(o["merge_dims"], 6), skip_rank1=False, dim_gt=4096)
  if o["graft"] == "adafactor":
    # AdaFactor factors the accumulator along the axes of the ORIGINAL shape, so it is legitimately presentation-dependent
    o["graft"] = "rmsprop"
  # both shapes must merge to the same merged shape
  if tf_ref.merged_shape(a, o["merge_dims"]) != tf_ref.merged_shape(b, o["merge_dims"]):
    rec.skip("meta-shapes-merge-differently")
    return
  wit = dict(case, pair=[list(a), list(b)])
  T = 5
  n = int(np.prod(a))
  vals = [rng.standard_normal(n).astype(np.float32) * 10 ** rng.uniform(-1, 1) for _ in range(T)]
  p0 = rng.standard_normal(n).astype(np.float32)
  res = []
  try:
    for shp in (a, b):
      with contextlib.redirect_stdout(io.StringIO()):
        opt = build(o)
      outs = run_real(opt, {"w": p0.reshape(shp)}, [{"w": v.reshape(shp)} for v in vals], jnp.float64)
      res.append([x["w"].ravel() for x in outs])
  except Exception as e:  # pylint: disable=broad-except
    kind, where = H.classify_exception(e)
    if kind == "reject":
      rec.skip("rejected:" + where)
    else:
      rec.violation("crash:" + where, "tearfree raised %s: %s" % (type(e).__name__, str(e)[:200]), wit)
    return
  rec.count("metamorphic_pairs")
  rec.case(util.key_hash([o, a, b, case["hseed"]]), True, sample={"pair": [list(a), list(b)], "merge_dims": o["merge_dims"]})
  for t in range(T):
    d = np.max(np.abs(res[0][t] - res[1][t])) / (np.max(np.abs(res[0][t])) + 1e-300)
    rec.maxi("metamorphic_relerr_over_1e-9", d / 1e-9)
    if d > 1e-9:
      rec.violation("merge-changes-values", "shapes %s and %s merge to the same tensor but step %d updates differ by %.3g rel" % (a, b, t, d), wit)
      return


def run(spec, rec):
  rng = util.rng_for(spec["seed"], PROPERTY, spec["name"])
  for i in range(spec["n"]):
    if i % 8 == 7:
      util.release_compiled_code()
    if time.time() > rec.deadline:
      rec.count("dropped_for_budget", spec["n"] - i)
      break
    if spec["second"] == "meta":
      c = gen_case(rng, "shampoo")
      c["meta"] = True
      check_meta(c, rec)
    else:
      check_case(gen_case(rng, spec["second"]), rec)


def replay(witness, rec):
  w = util.dec(witness)
  if w.get("meta"):
    check_meta(w, rec)
  else:
    check_case(w, rec)
