"""C16 — OCO algorithms match closed forms; lossless S-AdaGrad is full-matrix AdaGrad.

Observed: states returned by generate_init_update(...)'s init/update pair
(x64 on).  Oracles: closed forms (OGD, ADA), last sketch row zero, FD bracket on
the documented sketched inputs, alpha recurrences with rho recomputed by the
monitor, dense-matrix application of the sketched preconditioner, and
S-AdaGrad == exact full-matrix AdaGrad for histories of rank < sketch size.
"""
import time

import numpy as np

from vmon import util

PROPERTY = "C16"
LEVEL = "exploration"
RULE = ("random (algorithm in 6, dimension n 2..10 as vector or matrix, sketch size 2..n, delta in "
        "{0,1e-9,1e-3,0.1,1}, lr) x gradient histories of length 1..20 from families {gauss, lowrank(rank<m), "
        "scales, zeros-interleaved, repeated, tiny 1e-7..1e-4}; one case = one (config, history); non-trivial when a "
        "gradient is non-zero; distinct by config+history seed; plus the training loop of oco/train.py "
        "(_compiled_run_dataset: scan over observation chunks of a fori_loop over rows) on synthetic datasets of "
        "3..24 rows with the library's logistic loss or a squared loss, 2..6 observation points: every history entry "
        "must be the state after exactly obs_ixs[i] rows (closed forms for OGD/ADA with the monitor's own gradients, "
        "row-by-row stepping of the update function for the sketched methods)")
ASSUMPTIONS = ["float64 comparisons with relative tolerance 1e-9 (1e-7 for dense-inverse cross checks scaled by condition number)"]
DECIDING = ["closed_form_checked", "last_row_zero_checked", "bracket_checked", "alpha_checked",
            "lossless_checked", "precond_apply_checked", "train_history_checked", "reinit_checked"]
MIN_NONTRIVIAL = 30
TIMEOUT = {"quick": 900, "thorough": 5400}

ALGS = ["OGD", "ADA", "S_ADA", "ADA_FD", "FD_SON", "RFD_SON"]
FAMS = ["gauss", "lowrank", "scales", "zeros", "repeated", "tiny"]


def shards(tier, seed):
  n = 40 if tier == "quick" else 500
  return [{"name": "s%d" % i, "env": {"x64": True}, "n": n,
           "budget_s": 500 if tier == "quick" else 4500} for i in range(16)]


def gen_case(rng, force_alg=None):
  alg = force_alg or ALGS[int(rng.integers(0, len(ALGS)))]
  if rng.random() < 0.25:
    wshape = [int(rng.integers(1, 4)), int(rng.integers(2, 5))]
  else:
    wshape = [int(rng.integers(2, 11))]
  n = int(np.prod(wshape))
  m = 0 if alg in ("OGD", "ADA") else int(rng.integers(2, n + 1))
  fam = FAMS[int(rng.integers(0, len(FAMS)))]
  if alg == "S_ADA" and rng.random() < 0.5:
    fam = "lowrank"
  # ADA_FD divides by (delta + sqrt-eigenvalue): delta must be positive there (0/0 otherwise).
  deltas = [1e-3, 0.1, 1.0, 1e-9] if alg == "ADA_FD" else [0.0, 1e-3, 0.1, 1.0, 1e-9]
  return {"alg": alg, "wshape": wshape, "m": m, "delta": float(rng.choice(deltas)),
          "lr": float(rng.choice([0.3, 1.0, 0.05])), "family": fam, "T": int(rng.integers(1, 21)),
          "hseed": int(rng.integers(0, 2 ** 31))}


def gen_history(c):
  rng = np.random.default_rng(c["hseed"])
  n = int(np.prod(c["wshape"]))
  fam, T, m = c["family"], c["T"], c["m"]
  if fam == "lowrank":
    r = max(1, min(n, (m - 1) if m else 2) - int(rng.integers(0, 2)))
    r = max(1, min(r, (m - 1) if m else r))
    basis = rng.standard_normal((r, n))
    gs = [rng.standard_normal(r) @ basis for _ in range(T)]
  elif fam == "scales":
    gs = [rng.standard_normal(n) * 10.0 ** rng.uniform(-3, 3) for _ in range(T)]
  elif fam == "tiny":
    # tiny gradients (with a tiny delta the preconditioner's eigenvalues sit far below float32 eps); low rank half of the time
    if rng.random() < 0.5 and m:
      basis = rng.standard_normal((max(1, m - 1), n))
      gs = [(rng.standard_normal(max(1, m - 1)) @ basis) * 1e-5 for _ in range(T)]
    else:
      gs = [rng.standard_normal(n) * 10.0 ** rng.uniform(-7, -4) for _ in range(T)]
  elif fam == "zeros":
    gs = [rng.standard_normal(n) * (0.0 if t % 2 else 1.0) for t in range(T)]
  elif fam == "repeated":
    g0 = rng.standard_normal(n)
    gs = [g0 * (1 + 0.0 * t) for t in range(T)]
  else:
    gs = [rng.standard_normal(n) for _ in range(T)]
  return [np.asarray(g, np.float64).reshape(c["wshape"]) for g in gs]


def _factor(alg, t, lr):
  if alg == "RFD_SON":
    return 1.0 / np.sqrt(t * lr)
  if alg == "FD_SON":
    return 1.0 / np.sqrt(np.sqrt(t) * lr)
  return 1.0


def check_case(c, rec):
  import jax.numpy as jnp
  from precondition.oco import algorithms as A
  gs = [np.asarray(g, np.float64) for g in (c["grads"] if "grads" in c else gen_history(c))]
  alg, m, delta, lr = c["alg"], c["m"], c["delta"], c["lr"]
  wshape = tuple(c["wshape"])
  n = int(np.prod(wshape))
  wit = dict(c, grads=gs)
  rec.case(util.key_hash({k: c[k] for k in c if k != "grads"}), any(np.any(g != 0) for g in gs),
           sample={k: c[k] for k in c if k != "grads"})
  rec.count("alg_" + alg)
  rec.count("family_" + c["family"])
  hp = A.HParams(delta=delta, lr=lr, sketch_size=m, algorithm=A.Algorithm[alg])
  init, upd = A.generate_init_update(wshape, hp)
  st = init()
  st_init = {k: np.array(v, np.float64) for k, v in st.items()}
  w_ref = np.zeros(n)
  h_ref = np.ones(n) * delta
  C = np.zeros((n, n))       # covariance of the sketched inputs
  Craw = np.zeros((n, n))    # covariance of raw gradients (S-AdaGrad lossless check)
  esc = 0.0
  rank_ok = True
  for t, g in enumerate(gs, start=1):
    pre = {k: np.asarray(v, np.float64) for k, v in st.items()}
    # eager use as in the library's own loop: the state dictionary is handed over and updated in place
    st = upd(st, jnp.array(0.0), jnp.asarray(g))
    post = {k: np.asarray(v, np.float64) for k, v in st.items()}
    gv = g.ravel()
    if t == len(gs) or t == 1:
      # a second sequence through the same bound functions must start from the documented initial state
      # (w = 0, t = 0, alpha = diag_h = delta, empty sketch), whatever the first sequence did to its own state
      again = {k: np.asarray(v, np.float64) for k, v in init().items()}
      rec.count("reinit_checked")
      if set(again) != set(st_init) or any(again[k].shape != st_init[k].shape or np.any(again[k] != st_init[k]) for k in st_init):
        rec.violation("init-not-fresh", "%s: init() after %d update(s) of an earlier sequence does not return the initial state" % (alg, t), wit)
        return
    if not all(np.all(np.isfinite(v)) for v in post.values()):
      rec.violation("non-finite", "%s: non-finite state at step %d" % (alg, t), wit)
      return
    if post["w"].shape != wshape:
      rec.violation("iterate-shape", "iterate shape %s" % (post["w"].shape,), wit)
      return
    if alg in ("OGD", "ADA"):
      if alg == "OGD":
        w_ref = w_ref - lr * gv / np.sqrt(t + delta)
      else:
        h_ref = h_ref + gv * gv
        w_ref = w_ref - lr * gv / np.sqrt(np.where(h_ref == 0, 1.0, h_ref))
      rec.count("closed_form_checked")
      err = np.max(np.abs(post["w"].ravel() - w_ref)) / (np.max(np.abs(w_ref)) + 1e-300)
      rec.maxi("closed_form_relerr_over_1e-9", err / 1e-9)
      if err > 1e-9:
        rec.violation("closed-form-" + alg, "%s iterate differs from closed form by %.3g rel at step %d" % (alg, err, t), wit)
        return
      continue
    # ---- sketched algorithms
    f = _factor(alg, t, lr)
    x = gv * f
    Bpre = pre["P"] * pre["e"].reshape(-1, 1)
    Bin = Bpre.copy()
    Bin[-1] = x
    M = Bin.T @ Bin
    ev = np.sort(np.linalg.eigvalsh(M))[::-1]
    rho2 = max(ev[m - 1], 0.0) if m <= n else 0.0
    esc += rho2
    C = C + np.outer(x, x)
    Craw = Craw + np.outer(gv, gv)
    P, e = post["P"], post["e"]
    if P.shape != (m, n) or e.shape != (m,):
      rec.violation("sketch-shape", "sketch shapes P %s e %s" % (P.shape, e.shape), wit)
      return
    rec.count("last_row_zero_checked")
    if e[-1] != 0.0:
      rec.violation("last-row-nonzero", "%s: e[-1]=%.3g after step %d" % (alg, e[-1], t), wit)
      return
    B = P * e.reshape(-1, 1)
    S = B.T @ B
    scale = max(np.linalg.norm(C, 2), 1e-300)
    lo = np.linalg.eigvalsh(C - S).min() / scale
    hi = np.linalg.eigvalsh(C - S - esc * np.eye(n)).max() / scale
    rec.count("bracket_checked")
    rec.maxi("bracket_violation_over_1e-9", max(-lo, hi) / 1e-9)
    if lo < -1e-9 or hi > 1e-9:
      rec.violation("fd-bracket", "%s: sketch outside S<=C<=S+tI at step %d (lo %.3g hi %.3g rel)" % (alg, t, lo, hi), wit)
      return
    # orthonormal rows where e>0
    G = P @ P.T
    act = e > 0
    if np.any(np.abs(G - np.eye(m))[np.ix_(act, act)] > 1e-8):
      rec.violation("sketch-not-orthonormal", "%s: sketch directions not orthonormal at step %d" % (alg, t), wit)
      return
    a_fac = {"RFD_SON": 0.5, "FD_SON": 0.0, "ADA_FD": 0.0, "S_ADA": 1.0}[alg]
    alpha_ref = pre["alpha"] + a_fac * rho2
    rec.count("alpha_checked")
    aerr = abs(post["alpha"] - alpha_ref) / (abs(alpha_ref) + scale * 1e-6 + 1e-300)
    rec.maxi("alpha_relerr_over_1e-8", aerr / 1e-8)
    if aerr > 1e-8:
      rec.violation("alpha-recurrence", "%s: alpha %.12g != previous + %.1f*rho^2 = %.12g at step %d" % (
          alg, post["alpha"], a_fac, alpha_ref, t), wit)
      return
    if alg == "S_ADA":
      tot = delta + esc
      if abs(post["alpha"] - tot) > 1e-8 * (abs(tot) + scale * 1e-6):
        rec.violation("alpha-total", "S_ADA: alpha %.12g != delta + sum rho^2 = %.12g" % (post["alpha"], tot), wit)
        return
    # ---- dense application of the documented preconditioner built from the stored post-state
    alpha = float(post["alpha"])
    s = e ** 2
    if alpha > 0:
      if alg == "ADA_FD":
        H = alpha * np.eye(n) + P.T @ (e[:, None] * P)
        upd_ref = np.linalg.solve(H, gv)
        cond = np.linalg.cond(H)
      else:
        H = alpha * np.eye(n) + P.T @ (s[:, None] * P)
        wv, V = np.linalg.eigh(H)
        power = -0.5 if alg == "S_ADA" else -1.0
        upd_ref = (V * wv ** power) @ V.T @ gv
        cond = wv.max() / wv.min() if wv.min() > 0 else np.inf
      if not (cond <= 1e8):
        rec.count("apply_skipped_ill_conditioned")
      else:
        lr_eff = lr if alg in ("S_ADA", "ADA_FD") else 1.0
        w_exp = pre["w"].ravel() - lr_eff * upd_ref
        rec.count("precond_apply_checked")
        tol = 1e-9 * max(cond, 1.0) * (np.max(np.abs(lr_eff * upd_ref)) + 1e-300) + 1e-12 * np.max(np.abs(pre["w"]))
        d = np.max(np.abs(post["w"].ravel() - w_exp))
        rec.maxi("apply_err_over_tol", d / max(tol, 1e-300))
        if d > tol:
          rec.violation("precond-apply-" + alg, "%s: iterate step differs from dense (alpha I + sketch)^p g by %.3g (tol %.3g) at step %d" % (alg, d, tol, t), wit)
          return
    # ---- lossless S-AdaGrad == full-matrix AdaGrad
    if alg == "S_ADA" and delta > 0:
      rk = np.linalg.matrix_rank(Craw, tol=1e-10 * max(np.linalg.norm(Craw, 2), 1e-300))
      if rk >= m:
        rank_ok = False
      if rank_ok:
        wv, V = np.linalg.eigh(delta * np.eye(n) + Craw)
        w_ref = w_ref - lr * (V * wv ** -0.5) @ V.T @ gv
        rec.count("lossless_checked")
        cond = wv.max() / wv.min()
        err = np.max(np.abs(post["w"].ravel() - w_ref)) / (np.max(np.abs(w_ref)) + 1e-300)
        rec.maxi("lossless_relerr_over_tol", err / (1e-10 * cond * t))
        if err > 1e-10 * cond * t:
          rec.violation("lossless-sada", "S_ADA iterate differs from full-matrix AdaGrad by %.3g rel at step %d (rank %d < m %d)" % (err, t, rk, m), wit)
          return
        if abs(post["alpha"] - delta) > 1e-9 * scale + 1e-12:
          rec.violation("lossless-alpha", "S_ADA escaped mass %.3g non-zero for history of rank %d < m %d" % (post["alpha"] - delta, rk, m), wit)
          return


def gen_train_case(rng):
  alg = ALGS[int(rng.integers(0, len(ALGS)))]
  n = int(rng.integers(2, 7))
  m = 0 if alg in ("OGD", "ADA") else int(rng.integers(2, n + 1))
  # sketched methods with delta = 0 invert eigenvalues that are rounding noise until the sketch overflows (alpha = 0):
  # the compiled and the eager run of the very same steps then differ by O(1), so the trajectory comparison is
  # only meaningful with a positive delta there; OGD/ADA closed forms are exact for delta = 0 too
  deltas = [0.0, 1e-3, 0.1, 1.0] if alg in ("OGD", "ADA") else [1e-3, 0.1, 1.0]
  rows = int(rng.integers(3, 25))
  return {"kind": "train", "alg": alg, "n": n, "m": m, "delta": float(rng.choice(deltas)),
          "lr": float(rng.choice([0.3, 1.0, 0.05])), "rows": rows, "num_obs": int(rng.integers(2, min(rows, 6) + 1)),
          "loss": str(rng.choice(["logistic", "square"])), "family": "train", "hseed": int(rng.integers(0, 2 ** 31))}


def check_train(c, rec):
  """The training loop of oco/train.py delivers, at every observation index, the state after exactly that many rows."""
  import jax
  import jax.numpy as jnp
  from precondition.oco import algorithms as A
  from precondition.oco import datasets as D
  from precondition.oco import train as TR
  rng = np.random.default_rng(c["hseed"])
  n, rows, alg, delta, lr = c["n"], c["rows"], c["alg"], c["delta"], c["lr"]
  x = rng.standard_normal((rows, n))
  y = (rng.random(rows) < 0.5).astype(np.float64)
  rec.case(util.key_hash(c), True, sample=c)
  rec.count("alg_" + alg)
  rec.count("family_train")
  if c["loss"] == "logistic":
    loss = D._logistic_loss
    np_grad = lambda w, r, yy: (1.0 / (1.0 + np.exp(-(w @ r))) - yy) * r
    np_loss = lambda w, r, yy: yy * np.logaddexp(0, -(w @ r)) + (1 - yy) * np.logaddexp(0, w @ r)
  else:
    loss = lambda w, r, yy: 0.5 * (jnp.dot(w, r) - yy) ** 2
    np_grad = lambda w, r, yy: ((w @ r) - yy) * r
    np_loss = lambda w, r, yy: 0.5 * ((w @ r) - yy) ** 2
  hp = A.HParams(delta=delta, lr=lr, sketch_size=c["m"], algorithm=A.Algorithm[alg])
  init, upd = A.generate_init_update((n,), hp)
  obs = np.round(np.linspace(0, rows, num=c["num_obs"], endpoint=True)).astype(int)   # as run_dataset builds them
  st0 = init()
  st0["loss"] = jnp.array(0.0, dtype=jnp.float64)
  st0["n"] = 0
  lag = jax.value_and_grad(loss)
  hist = TR._compiled_run_dataset(jnp.asarray(x), jnp.asarray(y), dict(st0), jnp.asarray(obs), lag, upd, None)
  hist = {k: np.asarray(v, np.float64) for k, v in hist.items()}
  # reference trajectory: closed forms with the monitor's own gradients (OGD/ADA); row-by-row stepping of the
  # update function (whose single steps check_case verifies) for the sketched methods
  ref = []
  if alg in ("OGD", "ADA"):
    w = np.zeros(n); h = np.ones(n) * delta; tot = 0.0
    ref.append({"w": w.copy(), "loss": 0.0})
    for t in range(1, rows + 1):
      g = np_grad(w, x[t - 1], y[t - 1]); tot += np_loss(w, x[t - 1], y[t - 1])
      if alg == "OGD":
        w = w - lr * g / np.sqrt(t + delta)
      else:
        h = h + g * g
        w = w - lr * g / np.sqrt(np.where(h == 0, 1.0, h))
      ref.append({"w": w.copy(), "loss": tot})
  else:
    st = init(); tot = 0.0
    ref.append({"w": np.asarray(st["w"], np.float64), "loss": 0.0, "e": np.asarray(st["e"], np.float64), "alpha": float(st["alpha"])})
    for t in range(1, rows + 1):
      f, g = lag(st["w"], jnp.asarray(x[t - 1]), jnp.asarray(y[t - 1]))
      tot += float(f)
      st = upd(dict(st), f, g)
      ref.append({"w": np.asarray(st["w"], np.float64), "loss": tot, "e": np.asarray(st["e"], np.float64), "alpha": float(st["alpha"])})
  if len(hist["n"]) != len(obs):
    rec.violation("train-history-length", "history has %d entries for %d observation points" % (len(hist["n"]), len(obs)), c)
    return
  for i, k in enumerate(obs):
    rec.count("train_history_checked")
    if int(hist["n"][i]) != int(k):
      rec.violation("train-row-count", "%s: history entry %d was taken after %d rows, observation index is %d" % (alg, i, int(hist["n"][i]), int(k)), c)
      return
    if "t" in hist and int(hist["t"][i]) != int(k):
      rec.violation("train-row-count", "%s: step counter %d at observation index %d" % (alg, int(hist["t"][i]), int(k)), c)
      return
    r = ref[int(k)]
    scale = np.max(np.abs(r["w"])) + 1e-300
    err = np.max(np.abs(hist["w"][i] - r["w"])) / scale if k else float(np.max(np.abs(hist["w"][i])))
    # sketched methods re-use ill-conditioned inverses along the trajectory: compiled and eager runs of the same
    # steps agree to rounding amplified over the rows; closed forms are exact to float64 rounding
    tol = 1e-9 if alg in ("OGD", "ADA") else 1e-6
    rec.maxi("train_w_relerr_over_tol", err / tol)
    if not (err <= tol):
      rec.violation("train-iterate-" + alg, "%s: iterate at observation index %d (after %d rows) differs from the %s by %.3g rel" % (
          alg, i, int(k), "closed form" if alg in ("OGD", "ADA") else "row-by-row run", err), c)
      return
    lerr = abs(hist["loss"][i] - r["loss"]) / (abs(r["loss"]) + 1e-12)
    if not (lerr <= 1e-6):
      rec.violation("train-loss", "%s: cumulative loss %.12g at observation index %d, expected %.12g" % (alg, hist["loss"][i], i, r["loss"]), c)
      return
    if "e" in hist:
      rec.count("last_row_zero_checked")
      if hist["e"][i][-1] != 0.0:
        rec.violation("last-row-nonzero", "%s: e[-1]=%.3g in the training history at index %d" % (alg, hist["e"][i][-1], i), c)
        return
  util.release_compiled_code() if hasattr(util, "release_compiled_code") else None


def run(spec, rec):
  rng = util.rng_for(spec["seed"], PROPERTY, spec["name"])
  for i in range(spec["n"]):
    if time.time() > rec.deadline:
      rec.count("dropped_for_budget", spec["n"] - i)
      break
    check_case(gen_case(rng), rec)
  rng2 = util.rng_for(spec["seed"], PROPERTY, spec["name"] + ":train")
  for i in range(max(6, spec["n"] // 5)):
    if time.time() > rec.deadline:
      rec.count("dropped_for_budget_train")
      break
    check_train(gen_train_case(rng2), rec)


def replay(witness, rec):
  w = util.dec(witness)
  if w.get("kind") == "train":
    check_train(w, rec)
  else:
    check_case(w, rec)
