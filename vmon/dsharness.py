"""Drives the real distributed_shampoo through its public init/update API in the
four execution modes and exposes a uniform, read-only *view* of the state.

modes: "jit"     replicated, jax.jit(update)
       "pmap"    jax.pmap over D devices with batch_axis_name
       "pmapq"   as pmap + best_effort_memory_usage_reduction (int16 stats/preconditioners, int8 momenta)
       "sharded" shard_optimizer_states=True under a D-device mesh, jax.jit(update)
"""
import contextlib

import numpy as np

F = np.float64

DS_KEYS = ["block_size", "beta1", "beta2", "diagonal_epsilon", "matrix_epsilon", "weight_decay",
           "start_preconditioning_step", "preconditioning_compute_steps", "statistics_compute_steps",
           "best_effort_shape_interpretation", "nesterov", "exponent_override", "inverse_failure_threshold",
           "moving_average_for_momentum", "skip_preconditioning_dim_size_gt", "clip_by_scaled_gradient_norm",
           "relative_matrix_epsilon", "merge_small_dims_block_size", "skip_preconditioning_rank_lt",
           "decoupled_learning_rate", "decoupled_weight_decay", "eigh", "compression_rank",
           "frequent_directions", "reuse_preconditioner", "reset_preconditioner", "average_grad",
           "generate_training_metrics", "generate_fd_metrics", "lobpcg_topk_precondition",
           "decay_preconditioning_compute_steps", "end_preconditioning_compute_steps",
           "best_effort_memory_usage_reduction"]


def lr_fn(cfg):
  import jax.numpy as jnp
  sch = cfg.get("lr_schedule")
  if sch:
    _, base, every = sch
    return lambda t: jnp.asarray(base, jnp.float32) * jnp.power(jnp.float32(0.5), (jnp.asarray(t) // every).astype(jnp.float32))
  return cfg.get("learning_rate", 0.1)


def make_opt(cfg, mode="jit", D=1):
  from jax.sharding import PartitionSpec as P
  from precondition import distributed_shampoo as ds
  kw = {k: cfg[k] for k in DS_KEYS if k in cfg}
  if "graft_type" in cfg:
    kw["graft_type"] = ds.GraftingType(int(cfg["graft_type"]))
  if "precondtioner_type" in cfg:
    kw["precondtioner_type"] = ds.PreconditionerType(int(cfg["precondtioner_type"]))
  if mode in ("pmap", "pmapq"):
    kw["batch_axis_name"] = "b"
    if mode == "pmapq":
      kw["best_effort_memory_usage_reduction"] = True
  if mode == "sharded":
    kw.update(shard_optimizer_states=True, num_devices_for_pjit=D,
              statistics_partition_spec=P("x", None, None),
              preconditioner_partition_spec=P("x", None, None))
  kw.setdefault("block_size", 4)
  bs = kw.pop("block_size")
  return ds.distributed_shampoo(lr_fn(cfg), bs, **kw)


class Runner:
  """One optimizer instance + compiled step, in a given mode."""

  def __init__(self, cfg, params, mode="jit", D=1, opt=None):
    import jax
    import jax.numpy as jnp
    self.cfg, self.mode, self.D = cfg, mode, D
    self.params = {k: jnp.asarray(v) for k, v in params.items()}
    self.opt = opt if opt is not None else make_opt(cfg, mode, D)
    self.ctx = contextlib.nullcontext()
    if mode == "sharded":
      from jax.sharding import Mesh
      self.init_fns = self.opt.init(self.params)
      self.state = self.init_fns.init_fn(self.params)
      self._upd = jax.jit(self.opt.update)
      self.mesh = Mesh(np.array(jax.devices()[:D]), ("x",))
    elif mode in ("pmap", "pmapq"):
      st = self.opt.init(self.params)
      self.state = jax.tree.map(lambda x: jnp.stack([x] * D), st)
      self._pm = jax.pmap(lambda g, s: self.opt.update(g, s, self.params), axis_name="b",
                          devices=jax.devices()[:D])
    else:
      self.state = self.opt.init(self.params)
      self._upd = jax.jit(self.opt.update)

  def step(self, grads, state=None):
    """-> (updates, new_state).  For pmap modes, leaves keep the leading device axis."""
    import jax
    import jax.numpy as jnp
    state = self.state if state is None else state
    g = {k: jnp.asarray(v) for k, v in grads.items()}
    if self.mode in ("pmap", "pmapq"):
      gg = jax.tree.map(lambda x: jnp.stack([x] * self.D), g)
      u, st = self._pm(gg, state)
    elif self.mode == "sharded":
      with jax.set_mesh(self.mesh):
        u, st = self._upd(g, state, self.params)
    else:
      u, st = self._upd(g, state, self.params)
    jax.block_until_ready(u)
    self.state = st
    return u, st

  def updates_np(self, u, dev=0):
    if self.mode in ("pmap", "pmapq"):
      return {k: np.asarray(v[dev]) for k, v in u.items()}
    return {k: np.asarray(v) for k, v in u.items()}

  # ------------------------------------------------------------------ views
  def view(self, state=None, dev=0):
    import jax
    state = self.state if state is None else state
    if self.mode in ("pmap", "pmapq"):
      state = jax.tree.map(lambda x: x[dev], state)
    out = {"count": int(np.asarray(state.count)), "params": {}}
    keys = sorted(self.params)
    for k in keys:
      if self.mode == "sharded":
        out["params"][k] = _view_sharded(state, k, self.cfg.get("compression_rank", 0))
      else:
        out["params"][k] = _view_param(state.stats[k])
    return out


def _qv_float(q):
  """QuantizedValue -> float64 array (None if empty)."""
  v = q.to_float()
  if isinstance(v, list):
    return None
  return np.asarray(v, F)


def _qv_bits(q):
  parts = []
  for f in (q.quantized, q.diagonal, q.bucket_size):
    if isinstance(f, list):
      continue
    parts.append(np.asarray(f).tobytes())
  return b"|".join(parts)


def _mat_float(m):
  return _qv_float(m) if hasattr(m, "quantized") else np.asarray(m, F)


def _mat_bits(m):
  return _qv_bits(m) if hasattr(m, "quantized") else np.asarray(m).tobytes()


def _metrics(tm):
  if tm is None or not hasattr(tm, "inverse_pth_root_errors"):
    return None
  return {"errors": np.atleast_1d(np.asarray(tm.inverse_pth_root_errors, F)),
          "retries": np.atleast_1d(np.asarray(tm.total_retries, F)),
          "max_ev": np.atleast_1d(np.asarray(tm.max_eigen_value, F)),
          "bits": b"".join(np.asarray(x).tobytes() for x in __import__("jax").tree.leaves(tm))}


def _view_param(ps):
  return {
      "stats": [_mat_float(s) for s in ps.statistics],
      "stats_bits": [_mat_bits(s) for s in ps.statistics],
      "precs": [_mat_float(p) for p in ps.preconditioners],
      "precs_bits": [_mat_bits(p) for p in ps.preconditioners],
      "precs_raw": list(ps.preconditioners),
      "diag_stats": _qv_float(ps.diagonal_statistics),
      "mom": _qv_float(ps.momentum), "mom_bits": _qv_bits(ps.momentum),
      "mom_q": ps.momentum,
      "diag_mom": _qv_float(ps.diagonal_momentum), "diag_mom_bits": _qv_bits(ps.diagonal_momentum),
      "diag_mom_q": ps.diagonal_momentum,
      "metrics": _metrics(ps.training_metrics),
      "avg_grad": None if not hasattr(ps.avg_grad, "shape") else np.asarray(ps.avg_grad, F),
  }


def _view_sharded(state, k, compression_rank):
  gs = state.stats.global_stats
  ls = state.stats.local_stats[k]
  i0 = int(ls.index_start)
  sizes = [int(s) for s in ls.sizes]
  S = np.asarray(gs.statistics)
  Pm = np.asarray(gs.preconditioners)
  stats, precs = [], []
  for j, n in enumerate(sizes):
    stats.append(S[i0 + j][:n, :n])
    pd = n if not compression_rank or abs(compression_rank) + 2 >= n else abs(compression_rank) + 2
    precs.append(Pm[i0 + j][:n, :pd])
  return {
      "stats": [np.asarray(s, F) for s in stats], "stats_bits": [np.ascontiguousarray(s).tobytes() for s in stats],
      "precs": [np.asarray(p, F) for p in precs], "precs_bits": [np.ascontiguousarray(p).tobytes() for p in precs],
      "precs_raw": precs,
      "diag_stats": _qv_float(ls.diagonal_statistics),
      "mom": _qv_float(ls.momentum), "mom_bits": _qv_bits(ls.momentum), "mom_q": ls.momentum,
      "diag_mom": _qv_float(ls.diagonal_momentum), "diag_mom_bits": _qv_bits(ls.diagonal_momentum),
      "diag_mom_q": ls.diagonal_momentum,
      "metrics": _metrics(ls.training_metrics),
      "avg_grad": None if not hasattr(ls.avg_grad, "shape") else np.asarray(ls.avg_grad, F),
      "global_exponents": np.asarray(gs.exponents),
  }


def classify_exception(e):
  """C07's rule: explicit explanatory rejection vs internal error.

  Explicit rejection := ValueError / NotImplementedError with a non-empty message, or an
  AssertionError whose message is an explanatory sentence (>= 3 alphabetic words; a dumped list of numbers is not one), *raised on purpose*:
  the innermost repository frame is a `raise` / `assert` statement, or the exception was
  raised by validation code of a library the repository calls (innermost frame outside the
  repository).  A ValueError thrown by a builtin on a repository line (e.g. max() of an empty
  list) is an internal error.

  Returns ("reject", "Type@function") or ("internal", "Type@function")."""
  import os
  import re
  import traceback
  repo = os.path.realpath(os.environ.get("VMON_REPO", "/repo"))
  tb = traceback.extract_tb(e.__traceback__)
  in_repo = [os.path.realpath(f.filename).startswith(repo + os.sep) for f in tb]
  fr = [f for f, r in zip(tb, in_repo) if r]
  where = fr[-1].name if fr else "?"
  tag = "%s@%s" % (type(e).__name__, where)
  msg = str(e)
  explicit_type = (isinstance(e, (ValueError, NotImplementedError)) and bool(msg.strip())) or (
      isinstance(e, AssertionError) and len(re.findall(r"[A-Za-z]{2,}", msg)) >= 3)
  if not explicit_type:
    return "internal", tag
  if tb and in_repo[-1]:
    line = (tb[-1].line or "").strip()
    if line.startswith("raise ") or line.startswith("assert ") or line == "raise":
      return "reject", tag
    # multi-line raise/assert statements: extract_tb reports the first line of the statement
    # on 3.11+, but be lenient with continuation lines of a raise
    if isinstance(e, AssertionError):
      return "reject", tag
    return "internal", tag
  return "reject", tag


def known_c07_mechanisms():
  import json
  import os
  path = os.path.join(os.path.dirname(os.path.dirname(os.path.abspath(__file__))), "known_findings.json")
  try:
    with open(path) as f:
      return {k["mechanism"] for k in json.load(f)["findings"] if k.get("property") == "C07" and k.get("status") == "known"}
  except Exception:  # pylint: disable=broad-except
    return set()
