"""icontract postconditions attached (from the harness, no source edits) to the
pure-Python shape helpers of the repository.  `install()` rebinds the module /
class attributes; every evaluation is counted in COUNTS so a monitor can tell
"held" from "never evaluated".  Conditions return True on tracers.
"""
import collections
import itertools
import math

import numpy as np

try:
  import icontract
  HAVE_ICONTRACT = True
except Exception:  # pylint: disable=broad-except
  icontract = None
  HAVE_ICONTRACT = False

COUNTS = collections.Counter()
_INSTALLED = False


class ContractBroken(AssertionError):
  """A postcondition on a repository function evaluated to False."""

  def __init__(self, msg="contract broken"):
    super().__init__(msg)


def _concrete(x):
  import jax
  return not isinstance(x, jax.core.Tracer)


def _ensure(cond, name):
  """icontract.ensure with a named condition, or a minimal shim if unavailable."""
  if HAVE_ICONTRACT:
    def _err():
      return ContractBroken("postcondition %s violated" % name)
    return icontract.ensure(cond, description=name, error=_err)

  def deco(fn):
    import functools
    import inspect
    sig = inspect.signature(fn)
    want = list(inspect.signature(cond).parameters)

    @functools.wraps(fn)
    def wrapper(*a, **k):
      result = fn(*a, **k)
      ba = sig.bind(*a, **k)
      ba.apply_defaults()
      env = dict(ba.arguments, result=result)
      if not cond(**{n: env[n] for n in want}):
        raise ContractBroken("postcondition %s violated" % name)
      return result
    return wrapper
  return deco


# ---------------------------------------------------------------- conditions
def merge_small_dims_ok(shape_to_merge, max_dim, result):
  COUNTS["merge_small_dims"] += 1
  shape = [int(s) for s in shape_to_merge]
  res = [int(r) for r in result]
  if math.prod(res) != math.prod(shape):
    return False
  if shape and all(s == 1 for s in shape):
    return res == [1]
  # contiguous grouping: walk the dims, each result entry is the product of a
  # consecutive run (unit dims may attach anywhere)
  i = 0
  for r in res:
    prod, nonunit = 1, 0
    while i < len(shape) and (prod < r or shape[i] == 1) and prod * shape[i] <= r:
      prod *= shape[i]
      nonunit += shape[i] != 1
      i += 1
    if prod != r:
      return False
    if r > max_dim and nonunit != 1:
      return False
    if r == 1:
      return False
  return i == len(shape) or all(s == 1 for s in shape[i:])


def partition_ok(self, tensor, result):
  COUNTS["partition"] += 1
  shape = tuple(int(s) for s in self._shape)
  sizes = [[int(v) for v in s] for s in self.split_sizes()]
  if [sum(s) for s in sizes] != list(shape):
    return False
  exp_shapes = list(itertools.product(*sizes)) if sizes else [()]
  if len(result) != len(exp_shapes):
    return False
  if any(tuple(r.shape) != tuple(e) for r, e in zip(result, exp_shapes)):
    return False
  if not _concrete(tensor) or any(not _concrete(r) for r in result):
    return True
  COUNTS["partition_values"] += 1
  t = np.asarray(tensor)
  offs = [np.concatenate([[0], np.cumsum(s)]) for s in sizes]
  for blk, idx in zip(result, itertools.product(*[range(len(s)) for s in sizes])):
    sl = tuple(slice(int(offs[a][i]), int(offs[a][i + 1])) for a, i in enumerate(idx))
    if not np.array_equal(np.asarray(blk), t[sl]):
      return False
  return True


def merge_partitions_ok(self, partitions, result):
  COUNTS["merge_partitions"] += 1
  return tuple(result.shape) == tuple(self._shape)


def shapes_for_preconditioners_ok(self, result):
  COUNTS["shapes_for_preconditioners"] += 1
  sizes = [[int(v) for v in s] for s in self._partitioner.split_sizes()]
  pre = [i for i, p in enumerate(self.should_precondition_dims()) if p]
  exp = []
  for t in (itertools.product(*sizes) if sizes else [()]):
    for ax in pre:
      exp.append(int(t[ax]))
  got = [int(s[0]) for s in result]
  return got == exp and all(int(s[1]) <= int(s[0]) for s in result)


def updated_statistics_ok(self, grad, result):
  COUNTS["updated_statistics_from_grad"] += 1
  exp = [int(s[0]) for s in self.shapes_for_preconditioners()]
  shapes = []
  for r in result:
    sh = r.shape if hasattr(r, "shape") and not hasattr(r, "quantized") else r.quantized.shape
    shapes.append(tuple(int(v) for v in sh))
  return shapes == [(e, e) for e in exp]


def preconditioned_grad_ok(self, grad, result):
  COUNTS["preconditioned_grad"] += 1
  return tuple(result.shape) == tuple(grad.shape) and result.dtype == grad.dtype


def blockify_ok(x, meta, result):
  from precondition.tearfree import shampoo as ts
  COUNTS["blockify"] += 1
  if int(result.shape[meta.blocks_axis]) != int(meta.num_blocks):
    return False
  if math.prod(result.shape) != math.prod(x.shape):
    return False
  if not _concrete(x) or not _concrete(result):
    return True
  COUNTS["blockify_values"] += 1
  back = _ORIG["deblockify"](result, meta)
  return np.array_equal(np.asarray(back), np.asarray(x))


def deblockify_ok(blocked_x, meta, result):
  COUNTS["deblockify"] += 1
  return [int(s) for s in result.shape] == [int(s) for s in meta.param_shape]


def derive_shapes_ok(options, param, result):
  COUNTS["derive_shapes"] += 1
  if math.prod(result.merged_shape) != math.prod(param.shape):
    return False
  if len(result.merged_shape) != len(result.padded_shape):
    return False
  for m, p in zip(result.merged_shape, result.padded_shape):
    if p < m:
      return False
    if options.block_size and m >= options.block_size:
      if p % options.block_size or p - m >= options.block_size:
        return False
    elif p != m:
      return False
  return True


_ORIG = {}


def install():
  """Attach the postconditions.  Idempotent."""
  global _INSTALLED
  if _INSTALLED:
    return
  from precondition import distributed_shampoo as ds
  from precondition.tearfree import reshaper
  from precondition.tearfree import shampoo as ts
  _ORIG["deblockify"] = ts._deblockify
  ds.merge_small_dims = _ensure(merge_small_dims_ok, "merge_small_dims")(ds.merge_small_dims)
  ds.BlockPartitioner.partition = _ensure(partition_ok, "partition")(ds.BlockPartitioner.partition)
  ds.BlockPartitioner.merge_partitions = _ensure(merge_partitions_ok, "merge_partitions")(ds.BlockPartitioner.merge_partitions)
  P = ds.Preconditioner
  P.shapes_for_preconditioners = _ensure(shapes_for_preconditioners_ok, "shapes_for_preconditioners")(P.shapes_for_preconditioners)
  P.updated_statistics_from_grad = _ensure(updated_statistics_ok, "updated_statistics_from_grad")(P.updated_statistics_from_grad)
  P.preconditioned_grad = _ensure(preconditioned_grad_ok, "preconditioned_grad")(P.preconditioned_grad)
  ts._blockify = _ensure(blockify_ok, "blockify")(ts._blockify)
  ts._deblockify = _ensure(deblockify_ok, "deblockify")(ts._deblockify)
  reshaper._derive_shapes = _ensure(derive_shapes_ok, "derive_shapes")(reshaper._derive_shapes)
  _INSTALLED = True
