"""Shared helpers: JSON encoding of arrays, seeding, hashing."""
import base64
import hashlib
import json

import numpy as np


def enc(x):
  """JSON-able, bit-exact encoding of arrays / scalars / nested containers."""
  if isinstance(x, dict):
    return {str(k): enc(v) for k, v in x.items()}
  if isinstance(x, (list, tuple)):
    return [enc(v) for v in x]
  if isinstance(x, (np.generic,)):
    x = np.asarray(x)
  if hasattr(x, "__array__") and not isinstance(x, np.ndarray):
    x = np.asarray(x)
  if isinstance(x, np.ndarray):
    if x.dtype == object:
      return [enc(v) for v in x.tolist()]
    a = np.ascontiguousarray(x)   # note: promotes 0-d to 1-d, so keep x.shape
    return {"__nd__": str(a.dtype), "shape": list(x.shape),
            "b64": base64.b64encode(a.tobytes()).decode("ascii"),
            "preview": _preview(a)}
  if isinstance(x, float):
    if x != x:
      return {"__f__": "nan"}
    if x in (float("inf"), float("-inf")):
      return {"__f__": "inf" if x > 0 else "-inf"}
    return x
  if isinstance(x, (int, str, bool)) or x is None:
    return x
  return repr(x)


def _preview(a):
  flat = a.ravel()[:6]
  try:
    return [float(v) if np.isfinite(v) else str(v) for v in flat.astype(np.float64)]
  except Exception:  # pylint: disable=broad-except
    return [str(v) for v in flat]


def dec(x):
  if isinstance(x, dict):
    if "__nd__" in x:
      import ml_dtypes  # noqa: F401  (bfloat16 name registration)
      dt = np.dtype(x["__nd__"])
      return np.frombuffer(base64.b64decode(x["b64"]), dtype=dt).reshape(x["shape"]).copy()
    if "__f__" in x:
      return float(x["__f__"])
    return {k: dec(v) for k, v in x.items()}
  if isinstance(x, list):
    return [dec(v) for v in x]
  return x


def rng_for(*parts):
  """Deterministic Generator from (seed, property, shard, case, ...)."""
  ints = []
  for p in parts:
    if isinstance(p, str):
      ints.append(int.from_bytes(hashlib.sha256(p.encode()).digest()[:4], "big"))
    else:
      ints.append(int(p) & 0xFFFFFFFF)
  return np.random.default_rng(np.random.SeedSequence(ints))


def key_hash(obj):
  return hashlib.sha1(json.dumps(enc(obj), sort_keys=True, default=str).encode()).hexdigest()[:12]


def short(obj, limit=400):
  s = json.dumps(enc(obj), sort_keys=True, default=str)
  return s if len(s) <= limit else s[:limit] + "..."


def f64(x):
  return np.asarray(x, dtype=np.float64)


def rel_err(a, b, floor=1e-300):
  a = f64(a); b = f64(b)
  if a.size == 0:
    return 0.0
  return float(np.max(np.abs(a - b)) / (np.max(np.abs(b)) + floor))


def release_compiled_code():
  """Long shards compile thousands of XLA programs; their machine code is never freed and LLVM eventually fails with
  'Cannot allocate memory' (the worker then dies with SIGSEGV).  Dropping JAX's compilation caches every few cases keeps
  the workers' footprint bounded."""
  import gc
  import jax
  jax.clear_caches()
  gc.collect()
