"""Recorder used by monitors inside a worker process.

Collects what the monitors actually observed: evaluations, distinct non-trivial
case keys, per-class event counters, maxima (margins), samples, skips and
violations (with mechanism id and explicit witness).
"""
import time

from vmon import util

MAX_WITNESS_PER_MECH = 3
MAX_SAMPLES = 4


class Recorder:

  def __init__(self):
    self.evaluations = 0
    self.keys = set()
    self.counters = {}
    self.maxima = {}
    self.samples = []
    self.violations = []
    self._mech_count = {}
    self.skips = {}
    self.t0 = time.time()

  # -- observations -------------------------------------------------------
  def case(self, key, nontrivial=True, sample=None):
    self.evaluations += 1
    if nontrivial:
      self.keys.add(key if isinstance(key, str) else util.key_hash(key))
    if sample is not None and len(self.samples) < MAX_SAMPLES:
      self.samples.append(util.enc(sample))

  def count(self, name, n=1):
    self.counters[name] = self.counters.get(name, 0) + int(n)

  def maxi(self, name, value):
    value = float(value)
    if value != value:
      return
    if name not in self.maxima or value > self.maxima[name]:
      self.maxima[name] = value

  def skip(self, reason):
    self.skips[reason] = self.skips.get(reason, 0) + 1

  def violation(self, mechanism, text, witness):
    n = self._mech_count.get(mechanism, 0)
    self._mech_count[mechanism] = n + 1
    if n < MAX_WITNESS_PER_MECH:
      self.violations.append({"mechanism": mechanism, "text": str(text)[:600],
                              "witness": util.enc(witness)})

  # -- output ---------------------------------------------------------------
  def dump(self):
    return {
        "evaluations": self.evaluations,
        "keys": sorted(self.keys),
        "counters": self.counters,
        "maxima": self.maxima,
        "samples": self.samples,
        "violations": self.violations,
        "violation_counts": self._mech_count,
        "skips": self.skips,
        "wall_s": time.time() - self.t0,
    }
