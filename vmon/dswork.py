"""Workload generators shared by the distributed_shampoo monitors."""
import numpy as np

SHAPE_POOL = [(), (1,), (5,), (7,), (1, 1), (4, 3), (6, 2), (6, 1), (1, 7), (2, 3, 4), (1, 5, 2),
              (3, 2, 2, 2), (3, 1, 2, 2), (9, 2), (2, 2), (8, 8), (5, 5), (3, 7)]


def gen_cfg(rng, simple_root=False):
  """Random accepted hyper-parameter configuration in the C02 quantifier (dense preconditioners)."""
  c = dict(
      block_size=int(rng.choice([2, 3, 4, 8])),
      beta1=float(rng.choice([0.0, 0.9, 0.5])),
      beta2=float(rng.choice([1.0, 0.999, 0.9])),
      graft_type=int(rng.integers(0, 7)),
      nesterov=bool(rng.integers(0, 2)),
      moving_average_for_momentum=bool(rng.integers(0, 2)),
      weight_decay=float(rng.choice([0.0, 0.05])),
      decoupled_weight_decay=bool(rng.integers(0, 2)),
      decoupled_learning_rate=bool(rng.integers(0, 2)),
      start_preconditioning_step=int(rng.choice([0, 1, 2, 3])),
      preconditioning_compute_steps=int(rng.choice([1, 2, 3])),
      statistics_compute_steps=int(rng.choice([1, 1, 2, 3])),
      best_effort_shape_interpretation=bool(rng.integers(0, 2)),
      merge_small_dims_block_size=int(rng.choice([1, 4, 6, 16, 4096])),
      exponent_override=int(rng.choice([0, 0, 0, 2, 3])),
      eigh=bool(rng.integers(0, 2)),
      precondtioner_type=int(rng.choice([1, 1, 2, 3])),
      matrix_epsilon=float(rng.choice([1e-2, 1e-2, 1e-3, 1e-6])),
      relative_matrix_epsilon=bool(rng.integers(0, 2)),
      skip_preconditioning_rank_lt=int(rng.choice([1, 1, 2, 0])),
      skip_preconditioning_dim_size_gt=int(rng.choice([4096, 4096, 7])),
      diagonal_epsilon=float(rng.choice([1e-10, 1e-3])),
      learning_rate=float(rng.choice([0.1, 1.0, 0.01])),
  )
  if rng.random() < 0.2:
    c["lr_schedule"] = ["halving", float(rng.choice([0.5, 1.0, 0.25])), int(rng.choice([1, 2, 3]))]
  if c["graft_type"] in (3, 4) and rng.random() < 0.3:
    c["clip_by_scaled_gradient_norm"] = float(rng.choice([0.5, 2.0]))
  return c


def gen_tree(rng, max_leaves=3, pool=None):
  pool = pool or SHAPE_POOL
  n = int(rng.integers(1, max_leaves + 1))
  return {"p%d" % j: list(pool[int(rng.integers(0, len(pool)))]) for j in range(n)}


def gen_params(rng, tree):
  return {k: np.asarray(rng.standard_normal(tuple(s)), np.float32) for k, s in tree.items()}


def gen_history(rng, tree, T, family="scales", lo=-2, hi=2):
  """List of gradient dicts (float32)."""
  hist = []
  base = {k: rng.standard_normal(tuple(s)) for k, s in tree.items()}
  for t in range(T):
    g = {}
    for k, s in tree.items():
      s = tuple(s)
      if family == "repeated":
        v = base[k] * (1.0 + 0.0 * t)
      elif family == "zeros" and t % 3 == 1:
        v = np.zeros(s)
      elif family == "sparse":
        # exact zeros in some entries (sign(0) = 0, embedding-like gradients)
        v = rng.standard_normal(s) * (rng.random(s) < 0.6) * 10 ** rng.uniform(lo, hi)
      elif family == "lowrank" and len(s) >= 2:
        a = rng.standard_normal((s[0], 1))
        b = rng.standard_normal((1,) + s[1:])
        v = (a.reshape((s[0],) + (1,) * (len(s) - 1)) * b) * 10 ** rng.uniform(lo, hi)
      else:
        v = rng.standard_normal(s) * 10 ** rng.uniform(lo, hi)
      g[k] = np.asarray(v, np.float32)
    hist.append(g)
  return hist
