"""Float64 reference for ridge-regularised inverse p-th roots.

Written from the documentation: X = (A + d I)^(-1/p) with d = eps * max(lambda_hat, floor)
(relative) or eps (absolute); lambda_hat is the documented power iteration
(fixed seed-1729 uniform start, Rayleigh quotient, <=100 steps, stop when the
estimate moves by <= tol).
"""
import numpy as np

F = np.float64


def power_iteration_replica(a, padded_size=None, tol=1e-6, iters=100, start_dtype=np.float64):
  """Documented power iteration on the real (unpadded) n x n part `a`.

  The start vector is drawn for the padded size and truncated, as the padded
  routine zeroes the padding lanes of it.
  """
  a = np.asarray(a, F)
  n = a.shape[0]
  size = padded_size or n
  v = np.random.RandomState(1729).uniform(-1.0, 1.0, size).astype(start_dtype).astype(F)
  v = v[:n].copy()
  s, i, run = 0.0, 0, True
  while i < iters and run:
    nv = np.linalg.norm(v)
    v = v / nv if nv > 0 else v
    sv = a @ v
    sn = float(v @ sv)
    run = abs(sn - s) > tol
    s, v, i = sn, sv, i + 1
  return s


def exact_root(a, p, d, floor=True):
  """(A + d I)^(-1/p) by eigendecomposition; eigenvalues floored at d when asked."""
  a = np.asarray(a, F)
  w, v = np.linalg.eigh(a + d * np.eye(a.shape[0]))
  lo = d if (floor and d > 0) else 1e-300
  return (v * np.maximum(w, lo) ** (-1.0 / p)) @ v.T


def residual(x, a, d, p):
  """max |X^p (A + dI) - I| entrywise, float64."""
  x = np.asarray(x, F)
  n = x.shape[0]
  return float(np.max(np.abs(np.linalg.matrix_power(x, int(p)) @ (np.asarray(a, F) + d * np.eye(n)) - np.eye(n))))


def random_psd(rng, n, rank, spread, scale):
  q, _ = np.linalg.qr(rng.standard_normal((n, n)))
  ev = np.zeros(n)
  ev[:rank] = spread ** (-np.linspace(0, 1, rank)) if rank > 1 else 1.0
  a = (q * ev) @ q.T * scale
  return (a + a.T) / 2
