"""Independent float64 reference of the Tearfree optimizer's documented composition

  update = -lr(t) * momentum( weight_decay( graft( second_order( merge_and_pad(g) ) ) ) )

Shampoo: per block and axis, covariance EMA (sum when decay == 1), inverse (2 x rank)-th root
with eigenvalues below 1e-6 of *that block's* largest treated as zero.  Sketchy: frequent-
directions sketch per axis (rank k, decay b) with escaped mass t' = b t + rho, inverse roots
(l + t + eps)^(-1/(2 ndim)) on the sketch and (t + eps)^(-1/(2 ndim)) on its complement.
Written from the module docstrings and the Sketchy paper, not from the update functions.
"""
import itertools

import numpy as np

from vmon.refmodels import shapes as SH

F = np.float64


class Unsupported(Exception):
  pass


def merged_shape(shape, merge_dims):
  m = SH.merge_small_dims(shape, merge_dims)
  return [] if m == [1] else list(m)


def padded_shape(mshape, block):
  if not block:
    return list(mshape)
  return [((s + block - 1) // block) * block if s >= block else s for s in mshape]


def pad_to(x, pshape):
  out = np.zeros(pshape, F)
  out[tuple(slice(0, s) for s in x.shape)] = x
  return out


def shampoo_blocks(pshape, block):
  """Row-major block slices over the large axes (dims >= block)."""
  large = [i for i, d in enumerate(pshape) if d >= block]
  per = [range(pshape[i] // block) for i in large]
  out = []
  for combo in itertools.product(*per):
    sl = [slice(None)] * len(pshape)
    for ax, c in zip(large, combo):
      sl[ax] = slice(c * block, (c + 1) * block)
    out.append(tuple(sl))
  return out


def pth_inv_root(cov, p):
  w, v = np.linalg.eigh(cov)
  mx = w.max() if w.size else 0.0
  keep = w > 1e-6 * mx
  r = np.where(keep, np.where(keep, w, 1.0) ** (-1.0 / p), 0.0)
  return (v * r) @ v.T, w


def fd_step(V, lam, tail, G, k, decay):
  """One documented frequent-directions step on covariance eigen-form.

  V (d x k) directions, lam (k) deflated covariance eigenvalues, tail escaped mass, G (d x m) new
  factor.  Returns (V', lam', tail', undeflated, rho, full spectrum)."""
  d = V.shape[0]
  M = decay * (V * lam) @ V.T + G @ G.T
  M = (M + M.T) / 2
  w, U = np.linalg.eigh(M)
  w = np.maximum(w[::-1], 0.0)
  U = U[:, ::-1]
  rho = w[k] if k < d else 0.0
  if rho <= 1e-10 * max(w[0], 1e-300):
    rho = 0.0     # exact arithmetic: a history of rank <= k escapes nothing
  top = w[:k]
  lam2 = np.maximum(top - rho, 0.0)
  tail2 = decay * tail + rho
  und = top + decay * tail
  V2 = U[:, :k] * (lam2 > 0)
  return V2, lam2, tail2, und, rho, w


# ------------------------------------------------------------------ application of stored second-order state
def apply_stored(kind, so_state, key, g, merge_dims, block, masked_tree=None, with_bound=False):
  """Second-order direction for one leaf from the *real* stored state (roots / sketches).

  with_bound=True additionally returns a componentwise forward error bound for float32 arithmetic
  (8 * (sum of dims) * 2^-24 * |P_1| x_1 |P_2| x_2 ... |g|), which matters when the complement weight of a
  sketch is much larger than its in-sketch weights (cancellation in g - V V' g)."""
  g = np.asarray(g, F)
  shape = g.shape
  ms = merged_shape(shape, merge_dims)
  gm = g.reshape(ms)
  if kind == "shampoo":
    ps = padded_shape(ms, block)
    x = pad_to(gm, ps)
    blk = so_state.blocks[key]
    roots = [np.asarray(r, F) for r in blk.roots]
    if len(roots) != len(ps):
      raise Unsupported("rank mismatch")
    out = np.zeros_like(x)
    for n, sl in enumerate(shampoo_blocks(ps, block)):
      sub = x[sl]
      for ax in range(len(ps)):
        sub = np.moveaxis(np.tensordot(roots[ax][n], sub, axes=([1], [ax])), 0, ax)
      out[sl] = sub
    out = out[tuple(slice(0, s) for s in ms)]
    if with_bound:
      ab = np.abs(x)
      for ax in range(len(ps)):
        # bound with the entrywise-largest root over blocks (conservative)
        pa = np.max(np.abs(roots[ax]), axis=0)
        pa_full = np.kron(np.eye(ps[ax] // pa.shape[0]), pa) if ps[ax] != pa.shape[0] else pa
        ab = np.moveaxis(np.tensordot(pa_full, ab, axes=([1], [ax])), 0, ax)
      bnd = 8.0 * (sum(ps) + 2) * 2.0 ** -24 * ab[tuple(slice(0, s) for s in ms)]
      return out.reshape(shape), bnd.reshape(shape) + 1e-44
    return out.reshape(shape)
  axes = so_state.sketches[key].axes
  x = gm
  ab = np.abs(gm)
  for ax, st in enumerate(axes):
    V = np.asarray(st.eigvecs, F)
    inv = np.asarray(st.inv_eigvals, F)
    it = float(st.inv_tail)
    m = np.moveaxis(x, ax, 0)
    sh = m.shape
    m2 = m.reshape(sh[0], -1)
    low = V.T @ m2
    res = V @ (inv[:, None] * low) + it * (m2 - V @ low)
    x = np.moveaxis(res.reshape(sh), 0, ax)
    aV = np.abs(V)
    Dabs = abs(it) * (np.eye(V.shape[0]) + aV @ aV.T) + (aV * np.abs(inv)) @ aV.T
    ab = np.moveaxis(np.tensordot(Dabs, ab, axes=([1], [ax])), 0, ax)
  if with_bound:
    bnd = 8.0 * (sum(ms) + 2 * len(ms) + 2) * 2.0 ** -24 * ab
    return x.reshape(shape), bnd.reshape(shape) + 1e-44
  return x.reshape(shape)


# ------------------------------------------------------------------ full reference optimizer
class TearfreeRef:
  """opts: dict(second='shampoo'|'sketchy', merge_dims, block, sfreq, pfreq, decay, rank, sk_eps, sk_rel_eps,
  graft='none'|'sgd'|'rmsprop', gdecay, geps, start, skip_rank1, dim_gt, ema, nesterov, mdecay, wd, wd_after, lr (float or callable))"""

  def __init__(self, opts, params):
    self.o = opts
    self.count = 0
    self.st = {}
    self.acc = {k: np.zeros(np.shape(v)) for k, v in params.items()}
    self.trace = {k: np.zeros(np.shape(v)) for k, v in params.items()}
    self.info = {}

  def masked(self, shape):
    o = self.o
    if o["graft"] == "none":
      return False
    return (o["skip_rank1"] and len(shape) <= 1) or any(s > o["dim_gt"] for s in shape)

  def _adafactor(self, key, g, x):
    """AdaFactor's step is taken from optax itself (outside the repository), as a descent direction's negative:
    optax.adafactor returns -step, the documented grafting update is +step."""
    import jax.numpy as jnp
    import optax
    o = self.o
    if not hasattr(self, "_af"):
      self._af = optax.adafactor(min_dim_size_to_factor=o.get("af_min_dim", 128), decay_rate=o["gdecay"],
                                 multiply_by_parameter_scale=o.get("af_param_scale", True), eps=o["geps"],
                                 clipping_threshold=o.get("af_clip", 1.0))
      self._af_state = {}
    p = {"w": jnp.asarray(x)}
    if key not in self._af_state:
      self._af_state[key] = self._af.init(p)
    u, self._af_state[key] = self._af.update({"w": jnp.asarray(g)}, self._af_state[key], p)
    return -np.asarray(u["w"], F)

  def second_order(self, key, g):
    o = self.o
    shape = g.shape
    ms = merged_shape(shape, o["merge_dims"])
    gm = g.reshape(ms)
    t = self.count
    if o["second"] == "shampoo":
      block = o["block"]
      ps = padded_shape(ms, block)
      x = pad_to(gm, ps)
      blocks = shampoo_blocks(ps, block)
      p = 2 * len(ps)
      if key not in self.st:
        self.st[key] = {"stats": [[np.zeros((min(d, block), min(d, block))) for d in ps] for _ in blocks],
                        "roots": [[np.eye(min(d, block)) for d in ps] for _ in blocks]}
      s = self.st[key]
      out = np.zeros_like(x)
      near_cut = False
      for n, sl in enumerate(blocks):
        sub = x[sl]
        if t % o["sfreq"] == 0:
          for ax in range(len(ps)):
            m = np.moveaxis(sub, ax, 0).reshape(sub.shape[ax], -1)
            c = m @ m.T
            old = s["stats"][n][ax]
            s["stats"][n][ax] = old + c if o["decay"] == 1.0 else old * o["decay"] + c * (1 - o["decay"])
        if t % o["pfreq"] == 0:
          for ax in range(len(ps)):
            s["roots"][n][ax], w = pth_inv_root(s["stats"][n][ax], p)
            if w.size and np.any(np.abs(w / max(w.max(), 1e-300) - 1e-6) < 1e-6 * 0.5) :
              near_cut = True
        for ax in range(len(ps)):
          sub = np.moveaxis(np.tensordot(s["roots"][n][ax], sub, axes=([1], [ax])), 0, ax)
        out[sl] = sub
      if near_cut:
        self.info["near_cutoff"] = True
      out = out[tuple(slice(0, d) for d in ms)]
      return out.reshape(shape)
    # sketchy
    k0 = o["rank"]
    if key not in self.st:
      self.st[key] = [{"V": np.zeros((d, min(d, k0))), "lam": np.zeros(min(d, k0)), "tail": 0.0,
                       "inv": np.zeros(min(d, k0)), "inv_tail": 0.0} for d in ms]
    axes = self.st[key]
    alpha = -1.0 / (2 * len(ms))
    if t % o["sfreq"] == 0:
      for ax, a in enumerate(axes):
        d = ms[ax]
        k = min(d, k0)
        G = np.moveaxis(gm, ax, 0).reshape(d, -1)
        V2, lam2, tail2, und, rho, w = fd_step(a["V"], a["lam"], a["tail"], G, k, o["decay"])
        eps = und.max() * o["sk_eps"] if (o["sk_rel_eps"] and o["sk_eps"] > 0) else o["sk_eps"]
        a["V"], a["lam"], a["tail"] = V2, lam2, tail2
        a["inv"] = np.where(lam2 > 0, (und + eps) ** alpha, 0.0)
        a["inv_tail"] = (tail2 + eps) ** alpha if tail2 > 0 else 0.0
        if k < d and tail2 <= 1e-4 * max(w[0], 1e-300):
          # the real float32 code decides `tail > 0` on rounding noise here: not predictable
          self.info["tail_sign_ambiguous"] = True
        a["spectrum"] = w
    x = gm
    for ax, a in enumerate(axes):
      m = np.moveaxis(x, ax, 0)
      sh = m.shape
      m2 = m.reshape(sh[0], -1)
      low = a["V"].T @ m2
      res = a["V"] @ (a["inv"][:, None] * low) + a["inv_tail"] * (m2 - a["V"] @ low)
      x = np.moveaxis(res.reshape(sh), 0, ax)
    return x.reshape(shape)

  def step(self, grads, params):
    o = self.o
    t = self.count
    out = {}
    self.info = {}
    for key in sorted(grads):
      g = np.asarray(grads[key], F)
      x = np.asarray(params[key], F)
      shape = g.shape
      msk = self.masked(shape)
      if o["graft"] == "sgd":
        gu = g
      elif o["graft"] == "rmsprop":
        gd = o["gdecay"]
        self.acc[key] = self.acc[key] + g * g if gd == 1.0 else g * g * (1 - gd) + gd * self.acc[key]
        gu = g / np.sqrt(self.acc[key] + o["geps"])
      elif o["graft"] == "adafactor":
        gu = self._adafactor(key, g, x)
      else:
        gu = None
      if msk:
        v = gu
      else:
        so = self.second_order(key, g)
        if o["graft"] == "none":
          v = so
        else:
          bn = np.linalg.norm(so)
          v = so * (np.linalg.norm(gu) / bn if bn > 0 else 0.0) if t >= o["start"] else gu
      if o["wd"] > 0 and not o["wd_after"]:
        v = v + o["wd"] * x
      if o["mdecay"]:
        if o["ema"]:
          v = v * (1 - o["mdecay"])
        self.trace[key] = v + o["mdecay"] * self.trace[key]
        v = v + o["mdecay"] * self.trace[key] if o["nesterov"] else self.trace[key]
      if o["wd"] > 0 and o["wd_after"]:
        v = v + o["wd"] * x
      lr = o["lr"](t) if callable(o["lr"]) else o["lr"]
      out[key] = -lr * v
    self.count += 1
    return out
