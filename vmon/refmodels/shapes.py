"""Independent (documented-behaviour) models of dimension merging and blocking."""
import itertools


def merge_small_dims(shape, max_dim):
  """Greedy left-to-right merge: consecutive dims are multiplied while the product
  stays <= max_dim; unit dims vanish; an all-ones shape becomes [1]."""
  shape = [int(s) for s in shape]
  if shape and all(s == 1 for s in shape):
    return [1]
  out, prod = [], 1
  for d in shape:
    if prod * d <= max_dim:
      prod *= d
    else:
      if prod > 1:
        out.append(prod)
      prod = d
  if prod > 1:
    out.append(prod)
  return out


def block_slices(shape, block):
  """Row-major list of tuples of slices: contiguous blocks of extent <= block."""
  per_axis = []
  for d in shape:
    if 0 < block < d:
      per_axis.append([(c, min(c + block, d)) for c in range(0, d, block)])
    else:
      per_axis.append([(0, d)])
  return [tuple(slice(lo, hi) for lo, hi in combo) for combo in itertools.product(*per_axis)]
