"""Independent float64 reference transition for distributed_shampoo.

Written from the docstrings of distributed_shampoo() and the Shampoo paper
(Anil et al. 2020), not transcribed from update_fn: per-block Kronecker-factor
statistics S <- b2 S + (1-b2 | 1) G_(i) G_(i)^T, preconditioners
(S + d I)^(-1/p) with p = 2 * (#preconditioned axes) or the override, layer-wise
grafting, coupled/decoupled weight decay, (moving-average) momentum, Nesterov,
coupled/decoupled learning rate, warm-up switch at count >= start.

Every stage returns (value, bound): `bound` is a componentwise forward error
bound for the float32 arithmetic the real code uses (Higham-style gamma_k with a
safety factor), so comparisons need no hand-tuned epsilon.
"""
import numpy as np

from vmon.refmodels import shapes as SH

F = np.float64
U32 = 2.0 ** -24
SAFETY = 8.0
EPS25 = 1e-25


class Cfg:
  """Python mirror of the hyper-parameters (defaults = documented defaults)."""

  def __init__(self, **kw):
    self.learning_rate = 0.1
    self.block_size = 4
    self.beta1 = 0.9
    self.beta2 = 0.999
    self.diagonal_epsilon = 1e-10
    self.matrix_epsilon = 1e-6
    self.weight_decay = 0.0
    self.start_preconditioning_step = 5
    self.preconditioning_compute_steps = 1
    self.statistics_compute_steps = 1
    self.best_effort_shape_interpretation = True
    self.graft_type = 1
    self.nesterov = True
    self.exponent_override = 0
    self.inverse_failure_threshold = 0.1
    self.moving_average_for_momentum = False
    self.skip_preconditioning_dim_size_gt = 4096
    self.clip_by_scaled_gradient_norm = None
    self.relative_matrix_epsilon = True
    self.merge_small_dims_block_size = 4096
    self.precondtioner_type = 1
    self.skip_preconditioning_rank_lt = 1
    self.decoupled_learning_rate = True
    self.decoupled_weight_decay = False
    self.eigh = False
    self.lr_schedule = None   # ("halving", base, every) -> base * 0.5 ** (t // every)
    for k, v in kw.items():
      setattr(self, k, v)


def lr_at(cfg, step):
  if cfg.lr_schedule is not None:
    kind, base, every = cfg.lr_schedule
    assert kind == "halving"
    return float(base) * 0.5 ** (int(step) // int(every))
  return float(cfg.learning_rate)


def skip(cfg, shape):
  return len(shape) < cfg.skip_preconditioning_rank_lt or any(
      s > cfg.skip_preconditioning_dim_size_gt for s in shape)


def tshape(cfg, shape):
  if cfg.best_effort_shape_interpretation:
    return list(SH.merge_small_dims(shape, cfg.merge_small_dims_block_size))
  return list(shape)


def precond_axes(cfg, rank):
  if cfg.precondtioner_type == 1 or rank <= 1:
    return list(range(rank))
  if cfg.precondtioner_type == 2:
    return list(range(rank - 1))
  return [rank - 1]


def exponent(cfg, rank):
  if cfg.exponent_override:
    return cfg.exponent_override
  return 2 * len(precond_axes(cfg, rank))


def stat_sizes(cfg, shape):
  """Sizes of the statistics matrices in documented order (block-major, then axis)."""
  if skip(cfg, shape):
    return []
  ts = tshape(cfg, shape)
  out = []
  for sl in SH.block_slices(ts, cfg.block_size):
    for ax in precond_axes(cfg, len(ts)):
      out.append(sl[ax].stop - sl[ax].start)
  return out


def _unfold(g, axis):
  return np.moveaxis(g, axis, 0).reshape(g.shape[axis], -1)


def expected_stats(cfg, shape, grad, old_stats, step):
  """-> list of (S_new, bound).  Off statistics steps: unchanged, bound None (bitwise)."""
  ts = tshape(cfg, shape)
  g = np.asarray(grad, F).reshape(ts)
  if step % cfg.statistics_compute_steps != 0:
    return [(np.asarray(s, F), None) for s in old_stats]
  w1 = cfg.beta2
  w2 = 1.0 if cfg.beta2 == 1.0 else 1.0 - cfg.beta2
  out, i = [], 0
  for sl in SH.block_slices(ts, cfg.block_size):
    blk = g[sl]
    for ax in precond_axes(cfg, len(ts)):
      m = _unfold(blk, ax)
      gram = m @ m.T
      agram = np.abs(m) @ np.abs(m).T
      old = np.asarray(old_stats[i], F)
      val = w1 * old + w2 * gram
      k = m.shape[1] + 4
      bound = SAFETY * U32 * (k * abs(w2) * agram + 3 * np.abs(w1 * old)) + 1e-44
      out.append((val, bound))
      i += 1
  assert i == len(old_stats), (i, len(old_stats))
  return out


def apply_preconditioners(cfg, shape, grad, preconds):
  """Dense application along every preconditioned axis of every block.

  preconds: dense float64 matrices in documented order.  Returns (pg, bound).
  """
  ts = tshape(cfg, shape)
  g = np.asarray(grad, F).reshape(ts)
  out = np.zeros_like(g)
  bnd = np.zeros_like(g)
  axes = precond_axes(cfg, len(ts))
  i = 0
  for sl in SH.block_slices(ts, cfg.block_size):
    blk = g[sl]
    ablk = np.abs(blk)
    ksum = 2
    for ax in axes:
      if isinstance(preconds[i], dict):
        p, pabs = np.asarray(preconds[i]["D"], F), np.asarray(preconds[i]["Dabs"], F)
      else:
        p = np.asarray(preconds[i], F)
        pabs = np.abs(p)
      blk = np.moveaxis(np.tensordot(p, blk, axes=([0], [ax])), 0, ax)
      ablk = np.moveaxis(np.tensordot(pabs, ablk, axes=([0], [ax])), 0, ax)
      ksum += p.shape[0]
      i += 1
    out[sl] = blk
    bnd[sl] = SAFETY * ksum * U32 * ablk
  assert i == len(preconds), (i, len(preconds))
  return out.reshape(shape), bnd.reshape(shape) + 1e-44


def _norm(x):
  return float(np.linalg.norm(np.asarray(x, F).ravel()))


def graft_step(cfg, grad, diag_stats, lr):
  """-> (graft update, bound, new diagonal statistics or None)."""
  g = np.asarray(grad, F)
  gt = cfg.graft_type
  ds_new = None
  nrel = SAFETY * (g.size + 8) * U32
  if gt in (2, 6):
    sg = g / (_norm(g) + EPS25) if gt == 6 else g
    ds_new = np.asarray(diag_stats, F) + sg * sg
    upd = sg / (np.sqrt(ds_new) + cfg.diagonal_epsilon)
    rel = SAFETY * 6 * U32 + (2 * nrel if gt == 6 else 0.0)
  elif gt in (3, 4):
    sg = g / (_norm(g) + EPS25) if gt == 4 else g
    w1 = cfg.beta2
    w2 = 1.0 if cfg.beta2 == 1.0 else 1.0 - cfg.beta2
    ds_new = w1 * np.asarray(diag_stats, F) + w2 * sg * sg
    upd = sg / (np.sqrt(ds_new) + cfg.diagonal_epsilon)
    rel = SAFETY * 8 * U32 + (2 * nrel if gt == 4 else 0.0)
    if cfg.clip_by_scaled_gradient_norm:
      n = _norm(upd) / np.sqrt(float(upd.size))
      upd = upd / max(1.0, n / cfg.clip_by_scaled_gradient_norm)
      rel += nrel
  elif gt in (0, 1):
    upd = g
    rel = 0.0
  else:
    upd = np.sign(g)
    rel = 0.0
  bound = np.abs(upd) * rel
  if not cfg.decoupled_learning_rate:
    upd = upd * lr
    bound = bound * abs(lr) + np.abs(upd) * 2 * U32
  return upd, bound + 1e-44, ds_new


def expected_update(cfg, shape, grad, param, step, preconds, diag_stats, mom_shampoo, mom_graft):
  """Documented per-parameter transition on a float64 copy of the real pre-state.

  Returns dict with update, bounds, new momenta, new diagonal stats, pg, graft.
  """
  lr = lr_at(cfg, step)
  g = np.asarray(grad, F)
  x = np.asarray(param, F)
  graft, e_graft, ds_new = graft_step(cfg, g, diag_stats, lr)
  if skip(cfg, shape):
    pg, e_pg = graft, e_graft
  else:
    pg, e_pg = apply_preconditioners(cfg, shape, g, preconds)
  nrel = SAFETY * (g.size + 8) * U32
  if cfg.graft_type != 0:
    npg, ngr = _norm(pg), _norm(graft)
    mult = ngr / (npg + EPS25)
    r_m = (_norm(e_pg) / (npg + EPS25)) + (_norm(e_graft) / (ngr + 1e-300) if ngr > 0 else 0.0) + 2 * nrel
  else:
    mult, r_m = 1.0, 0.0
  su = pg * mult
  e_su = e_pg * abs(mult) + np.abs(su) * r_m
  su_wd, gr_wd, e_su_wd, e_gr_wd = su, graft, e_su, e_graft
  wd = cfg.weight_decay
  if wd != 0 and not cfg.decoupled_weight_decay:
    su_wd = su + wd * x
    gr_wd = graft + wd * x
    e_su_wd = e_su + 3 * U32 * (np.abs(su) + np.abs(wd * x))
    e_gr_wd = e_graft + 3 * U32 * (np.abs(graft) + np.abs(wd * x))
  b1 = cfg.beta1
  w = (1.0 - b1) if cfg.moving_average_for_momentum else 1.0
  m_s = np.asarray(mom_shampoo, F)
  m_g = np.asarray(mom_graft, F)
  ms = b1 * m_s + w * su_wd
  mg = b1 * m_g + w * gr_wd
  e_ms = w * e_su_wd + 4 * U32 * (np.abs(b1 * m_s) + np.abs(w * su_wd))
  e_mg = w * e_gr_wd + 4 * U32 * (np.abs(b1 * m_g) + np.abs(w * gr_wd))
  run = step >= cfg.start_preconditioning_step
  mom, e_mom = (ms, e_ms) if run else (mg, e_mg)
  wdu, e_wdu = (su_wd, e_su_wd) if run else (gr_wd, e_gr_wd)
  out, e_out = mom, e_mom
  if cfg.nesterov:
    out = w * wdu + b1 * mom
    e_out = w * e_wdu + b1 * e_mom + 4 * U32 * (np.abs(w * wdu) + np.abs(b1 * mom))
  if wd != 0 and cfg.decoupled_weight_decay:
    f = (1.0 if cfg.decoupled_learning_rate else lr) * wd
    e_out = e_out + 4 * U32 * (np.abs(out) + np.abs(f * x))
    out = out + f * x
  fac = lr if cfg.decoupled_learning_rate else 1.0
  upd = -fac * out
  e_upd = abs(fac) * e_out + 4 * U32 * np.abs(upd) + 1e-44
  return dict(update=upd, e_update=e_upd, mom_shampoo=ms, e_mom_shampoo=e_ms + 1e-44,
              mom_graft=mg, e_mom_graft=e_mg + 1e-44, diag_stats=ds_new, pg=pg, e_pg=e_pg,
              graft=graft, e_graft=e_graft, mult=mult, run=run, shampoo_update=su, e_shampoo_update=e_su)


def ridge(cfg, lam_hat, retries=1):
  base = lam_hat if cfg.relative_matrix_epsilon else 1.0
  if cfg.eigh:
    return cfg.matrix_epsilon * max(base, 1e-6)
  return cfg.matrix_epsilon * max(base, EPS25) * 10.0 ** (max(int(retries), 1) - 1)


def sched_interval(cfg, step, end_steps):
  """Documented preconditioning interval schedule:
  max(floor((p0 + (1 - lr(t)/lr(0)) * p_end) / 10) * 10, 1)."""
  ratio = lr_at(cfg, step) / lr_at(cfg, 0)
  v = cfg.preconditioning_compute_steps + (1.0 - ratio) * end_steps
  return max(int(v // 10) * 10, 1)


def dense_of_stored(pmat, compression_rank):
  """Dense matrix denoted by a stored preconditioner.

  Square -> itself.  Packed [d, |r|+2] (documented layout: first |r| columns V, column -2 rows 0..|r|-1
  the inverse-root eigenvalues e, entry [0,-1] the constant c, entry [-1,-2] the has-zeros flag)
  -> c (I - V V') + V diag(e) V', or the identity when flagged.  Returns {"D", "Dabs", "packed"}.
  """
  pmat = np.asarray(pmat, F)
  d, k = pmat.shape
  if d == k:
    return {"D": pmat, "Dabs": np.abs(pmat), "packed": False, "has_zeros": False}
  r = abs(int(compression_rank))
  assert k == r + 2, (pmat.shape, compression_rank)
  V = pmat[:, :r]
  e = pmat[:r, -2]
  c = pmat[0, -1]
  hz = bool(pmat[-1, -2] != 0)
  if hz:
    return {"D": np.eye(d), "Dabs": np.eye(d), "packed": True, "has_zeros": True}
  D = c * (np.eye(d) - V @ V.T) + (V * e) @ V.T
  aV = np.abs(V)
  Dabs = abs(c) * (np.eye(d) + aV @ aV.T) + (aV * np.abs(e)) @ aV.T
  return {"D": D, "Dabs": Dabs * 4.0, "packed": True, "has_zeros": False}
