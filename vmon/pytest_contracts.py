"""pytest plugin (-p vmon.pytest_contracts): runs the repository's own tests with the C06 contracts attached,
turning the existing suite into additional workloads for the stateless postconditions.  Evaluation counts are
written to $VMON_CONTRACT_COUNTS at session end."""
import json
import os


def pytest_configure(config):
  from vmon import contracts
  contracts.install()


def pytest_sessionfinish(session, exitstatus):
  from vmon import contracts
  path = os.environ.get("VMON_CONTRACT_COUNTS")
  if path:
    with open(path + ".%d" % os.getpid(), "w") as f:
      json.dump(dict(contracts.COUNTS), f)
