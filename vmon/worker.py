"""Worker: runs one shard of one monitor in a fresh interpreter.

usage: python -m vmon.worker <Cxx> <spec.json> <out.json>
The runner sets XLA_FLAGS / JAX_ENABLE_X64 / PYTHONPATH before starting us.
"""
import importlib
import json
import os
import sys
import time
import traceback
import warnings


def repo_frames(exc):
  repo = os.path.realpath(os.environ.get("VMON_REPO", "/repo"))
  tb = traceback.extract_tb(exc.__traceback__)
  return [f for f in tb if os.path.realpath(f.filename).startswith(repo + os.sep)]


def main():
  warnings.filterwarnings("ignore")
  prop, spec_path, out_path = sys.argv[1:4]
  with open(spec_path) as f:
    spec = json.load(f)
  from vmon import rec as rec_mod
  rec = rec_mod.Recorder()
  rec.deadline = time.time() + float(spec.get("budget_s", 1e9))
  status = "ok"
  err = None
  try:
    mod = importlib.import_module("vmon.monitors." + prop.lower())
    rp = spec.get("replay")
    if isinstance(rp, dict) and "traceback" in rp and "spec" in rp:
      # witness of an exception that escaped a whole shard: re-run that shard
      sub = dict(rp["spec"])
      sub.pop("replay", None)
      rec.deadline = time.time() + float(sub.get("budget_s", 1e9))
      mod.run(sub, rec)
    elif rp is not None:
      mod.replay(rp, rec)
    else:
      mod.run(spec, rec)
  except BaseException as e:  # pylint: disable=broad-except
    fr = repo_frames(e)
    tbtxt = "".join(traceback.format_exception(type(e), e, e.__traceback__))[-3000:]
    if fr and not isinstance(e, (KeyboardInterrupt, MemoryError)):
      # An exception escaping from repository code that the monitor did not
      # anticipate: the run of this case did not produce the documented result.
      rec.violation("crash:%s@%s" % (type(e).__name__, fr[-1].name),
                    "uncaught %s in %s:%d: %s" % (type(e).__name__, fr[-1].name,
                                                 fr[-1].lineno, str(e)[:300]),
                    {"traceback": tbtxt, "spec": spec})
      status = "crash_in_repo"
    else:
      status = "harness_error"
    err = tbtxt
  out = rec.dump()
  out["status"] = status
  out["error"] = err
  with open(out_path, "w") as f:
    json.dump(out, f)


if __name__ == "__main__":
  main()
