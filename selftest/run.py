#!/venv/bin/python
"""Mutation self-test: apply each source mutation to a scratch copy of /repo
(outside /repo and /verif), run the owning check's quick tier against it, and
record whether the monitor fired.  Scratch copies are removed after each use.

  selftest/run.py [--prop Cxx] [--id mutant_id] [--tier quick] [--write]
"""
import argparse, json, os, shutil, subprocess, sys, tempfile, time
ROOT = os.path.dirname(os.path.dirname(os.path.abspath(__file__)))
sys.path.insert(0, ROOT)
from selftest.mutants import MUTANTS  # noqa


def run_one(m, tier, extra):
  scratch = tempfile.mkdtemp(prefix="vmon_mut_")
  try:
    shutil.copytree("/repo/precondition", os.path.join(scratch, "precondition"),
                    ignore=shutil.ignore_patterns("__pycache__", "*_test.py", "reallocation_test_data"))
    for (rel, old, new) in m["edits"]:
      p = os.path.join(scratch, rel)
      s = open(p).read()
      if s.count(old) != 1:
        return {"id": m["id"], "result": "PATCH-FAILED(%d matches)" % s.count(old)}
      open(p, "w").write(s.replace(old, new))
    env = dict(os.environ, VMON_REPO=scratch, VMON_EVIDENCE=os.path.join(scratch, "ev.json"), VMON_REPLAYS=os.path.join(scratch, "replays"))
    t0 = time.time()
    p = subprocess.run([os.path.join(ROOT, "check"), m["property"], "--tier", tier] + extra,
                       env=env, capture_output=True, text=True)
    lines = [l for l in p.stdout.splitlines() if l.startswith("VIOLATION") or l.startswith("INCONCLUSIVE")]
    mechs = sorted({l.split("mechanism=")[1].split()[0] for l in lines if "mechanism=" in l})
    return {"id": m["id"], "rc": p.returncode, "mechanisms": mechs, "wall": round(time.time() - t0),
            "result": {0: "silent", 1: "caught", 2: "inconclusive"}.get(p.returncode, "rc%d" % p.returncode),
            "first": (lines[0][:300] if lines else "")}
  finally:
    shutil.rmtree(scratch, ignore_errors=True)


def main():
  ap = argparse.ArgumentParser()
  ap.add_argument("--prop"); ap.add_argument("--id"); ap.add_argument("--tier", default="quick")
  ap.add_argument("--write", action="store_true")
  ap.add_argument("extra", nargs="*")
  a = ap.parse_args()
  res = []
  for m in MUTANTS:
    if a.prop and m["property"] not in a.prop.upper().split(","):
      continue
    if a.id and a.id not in m["id"]:
      continue
    r = run_one(m, a.tier, a.extra)
    r["property"] = m["property"]; r["expect"] = m.get("expect", "caught"); r["note"] = m.get("note", "")
    ok = (r["result"] == r["expect"])
    print("%-4s %-34s expect=%-7s got=%-12s %s %s %s" % (m["property"], m["id"], r["expect"], r["result"], "OK " if ok else "MISMATCH", r.get("mechanisms", ""), r.get("wall", "")), flush=True)
    res.append(r)
    if a.write:
      # written after every mutant, so that an interrupted run keeps what it measured
      path = os.path.join(ROOT, "selftest", "kill_matrix.json")
      old = {x["id"]: x for x in json.load(open(path))} if os.path.exists(path) else {}
      old[r["id"]] = r
      json.dump(sorted(old.values(), key=lambda x: (x["property"], x["id"])), open(path, "w"), indent=1)
  if a.write:
    path = os.path.join(ROOT, "selftest", "kill_matrix.json")
    old = {}
    if os.path.exists(path):
      old = {r["id"]: r for r in json.load(open(path))}
    for r in res:
      old[r["id"]] = r
    json.dump(sorted(old.values(), key=lambda r: (r["property"], r["id"])), open(path, "w"), indent=1)


if __name__ == "__main__":
  main()
