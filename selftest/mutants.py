"""Source mutations used to test the monitors (selftest/run.py).

Each entry: id, property, edits [(path relative to repo root, old, new)],
expect: 'caught' (default) or 'silent' (behaviour-preserving control).
All of them still compile; they are applied to a scratch copy, never to /repo.
"""
Q = "precondition/quantization_utils.py"
SM3 = "precondition/sm3.py"
DS = "precondition/distributed_shampoo.py"

OCO = "precondition/oco/algorithms.py"
OCOT = "precondition/oco/train.py"

TFS = "precondition/tearfree/shampoo.py"
TFK = "precondition/tearfree/sketchy.py"
TFR = "precondition/tearfree/reshaper.py"
TFG = "precondition/tearfree/grafting.py"
TFM = "precondition/tearfree/momentum.py"
REALLOC = "precondition/tearfree/reallocation.py"

MUTANTS = [
    # ---- C04
    dict(id="c04_stats_interval_off_by_one", property="C04", edits=[(DS, "        perform_step = step % statistics_compute_steps == 0\n        init_state = state.statistics", "        perform_step = step % statistics_compute_steps == 1\n        init_state = state.statistics")]),
    dict(id="c04_precond_refresh_uses_old_stats", property="C04", edits=[(DS, "    new_stats_flat = _compute_preconditioners(new_stats_flat, params_flat,\n                                              state.count)", "    _stale = [s_._replace(statistics=o_.statistics) for s_, o_ in zip(new_stats_flat, stats_flat)]\n    _pre = _compute_preconditioners(_stale, params_flat, state.count)\n    new_stats_flat = [s_._replace(preconditioners=p_.preconditioners, training_metrics=p_.training_metrics) for s_, p_ in zip(new_stats_flat, _pre)]")],
         note="roots are computed from the statistics of the previous step (stale by one statistics update)"),
    dict(id="c04_sched_interval_ignored", property="C04", edits=[(DS, "    perform_step = step % preconditioning_compute_steps_t == 0\n\n    def _update_preconditioners():\n      # Passing statistics instead of preconditioners as they are similarly\n      # shaped tensors. Note statistics will be ignored as we are passing in\n      # a large error value.\n      preconditioners_init = [", "    perform_step = step % preconditioning_compute_steps == 0\n\n    def _update_preconditioners():\n      # Passing statistics instead of preconditioners as they are similarly\n      # shaped tensors. Note statistics will be ignored as we are passing in\n      # a large error value.\n      preconditioners_init = [")],
         note="replicated path ignores the lr-scheduled interval when deciding to refresh"),
    dict(id="c04_count_plus_two_sharded", property="C04", edits=[(DS, "    new_shampoo_state = ShampooState(\n        count=state.count + 1,\n        stats=ShardedShampooStats(new_global_stats, new_local_stats))", "    new_shampoo_state = ShampooState(\n        count=state.count + 1 + (state.count == 3),\n        stats=ShardedShampooStats(new_global_stats, new_local_stats))")]),
    dict(id="c04_tf_precond_freq_uses_stats_freq", property="C04", edits=[(TFS, "      state.count % options.update_preconditioners_freq\n  ) == 0", "      state.count % options.update_statistics_freq\n  ) == 0")]),
    dict(id="c04_sketchy_freq_off_by_one", property="C04", edits=[(TFK, "  should_update_stats = (state.count % options.update_freq) == 0", "  should_update_stats = ((state.count + 1) % options.update_freq) == 0")]),
    dict(id="c04_metrics_updated_off_schedule", property="C04", edits=[(DS, "          metrics_for_state = efficient_cond(perform_step,\n                                             lambda: [metrics_for_state],\n                                             [state.training_metrics])[0]\n          # pylint:enable=cell-var-from-loop\n        else:\n          metrics_for_state = optax.MaskedNode()\n        metrics_for_states.append(metrics_for_state)\n\n        idx += num_statistics\n    new_states = []", "          # pylint:enable=cell-var-from-loop\n        else:\n          metrics_for_state = optax.MaskedNode()\n        metrics_for_states.append(metrics_for_state)\n\n        idx += num_statistics\n    new_states = []")],
         note="diagnostics overwritten with placeholders on non-refresh steps (replicated path)"),
    # ---- C05
    dict(id="c05_skip_uses_raw_grad", property="C05", edits=[(DS, "      precond_grad = grafting_update\n\n    grafting_update_norm", "      precond_grad = grad\n\n    grafting_update_norm")],
         note="skipped parameters use the raw gradient direction (differs from the graft step for AdaGrad/RMSProp/sign grafts)"),
    dict(id="c05_compressed_complement_uses_g", property="C05", edits=[(DS, "        complement = g - lowrank_component", "        complement = g")],
         note="packed application forgets to project out the low-rank part"),
    dict(id="c05_has_zeros_ignored", property="C05", edits=[(DS, "        g = jnp.where(skip, old_g, new_g)", "        g = new_g")]),
    dict(id="c05_tf_mask_rank1_ignored", property="C05", edits=[(TFG, "    if options.skip_preconditioning_rank1 and x.ndim <= 1:", "    if options.skip_preconditioning_rank1 and x.ndim < 1:")]),
    dict(id="c05_tf_graft_norm_squared", property="C05", edits=[(TFG, "          base_norm > 0.0, jnp.linalg.norm(graft_upd) / base_norm, 0.0", "          base_norm > 0.0, jnp.linalg.norm(graft_upd) / jnp.square(base_norm), 0.0")]),
    dict(id="c05_tf_start_off_by_one", property="C05", edits=[(TFG, "          state.count >= start_preconditioning_step,", "          state.count > start_preconditioning_step,")]),
    # ---- C06
    dict(id="c06_nsplit_divisible", property="C06", edits=[(DS, "        nsplit = (d - 1) // block_size", "        nsplit = d // block_size")],
         note="appends an empty block when the dim is a multiple of the block size"),
    dict(id="c06_merge_partitions_order", property="C06", edits=[(DS, "    for (i, indices) in reversed(self._splits):", "    for (i, indices) in self._splits:")],
         note="partitions merged in the wrong axis order (needs >= 2 split axes)"),
    dict(id="c06_output_type_slots", property="C06", edits=[(DS, "      preconditioners_for_grad = [None] * (rank - 1) + preconditioners_for_grad", "      preconditioners_for_grad = preconditioners_for_grad + [None] * (rank - 1)")]),
    dict(id="c06_input_shapes_slice", property="C06", edits=[(DS, "        preconditioner_shapes.extend(map(self._preconditioner_shape, t[:-1]))", "        preconditioner_shapes.extend(map(self._preconditioner_shape, t[1:]))")]),
    dict(id="c06_reshaper_pad_extra_block", property="C06", edits=[(TFR, "        s = (s + options.block_size - 1) // options.block_size", "        s = s // options.block_size + 1")]),
    dict(id="c06_reshaper_unpad_trailing", property="C06", edits=[(TFR, "      merged = update[tuple(slice(0, m) for m in shapes.merged_shape)]", "      merged = update[tuple(slice(u - m, u) for m, u in zip(shapes.merged_shape, update.shape))]")]),
    dict(id="c06_blockify_perm", property="C06", edits=[(TFS, "  perm.insert(l_blocks_ix + 1, r_blocks_ix)", "  perm.insert(l_blocks_ix, r_blocks_ix)")]),
    dict(id="c06_control_merge_strict", property="C06", expect="silent", edits=[(DS, "    if product * d <= max_dim:", "    if product * d < max_dim:")],
         note="control for C06: merging one short of the limit is still lossless and within the limit (C02 catches it)"),
    # ---- C07
    dict(id="c07_avg_grad_masked_again", property="C07", edits=[(DS, "    new_avg_grad = state.avg_grad\n", "    new_avg_grad = optax.MaskedNode()\n")]),
    dict(id="c07_count_float_declared", property="C07", edits=[(DS, "        count=[[], jnp.int32],", "        count=[[], jnp.float32],")]),
    dict(id="c07_sm3_momentum_dtype_changes", property="C07", edits=[(SM3, "        ParameterStats(diagonal_stats, _quantize_momentum(momentum)),", "        ParameterStats(diagonal_stats, QuantizedValue.from_float_value(momentum, jnp.bfloat16)),")],
         note="sm3 state changes dtype/static metadata after the first update"),
    dict(id="c07_fd_needs_reuse_unchecked", property="C07", edits=[(DS, "  if frequent_directions and not reuse_preconditioner:", "  if False and frequent_directions and not reuse_preconditioner:")]),
    dict(id="c07_update_dtype_promoted", property="C07", edits=[(DS, "    transformed_update = -1.0 * momentum_multiplier * nesterov_momentum_update", "    transformed_update = (-1.0 * momentum_multiplier * nesterov_momentum_update).astype(jnp.bfloat16)")]),
    # ---- C08
    dict(id="c08_tf_global_max_again", property="C08", edits=[(TFS, "  mask = w <= eps * jnp.max(w, axis=-1, keepdims=True)", "  mask = w <= eps * jnp.max(w)")]),
    dict(id="c08_relative_eps_uses_batch_max", property="C08", edits=[(DS, "  def _matrix_inverse_pth_root_vmap(xs, ps, padding_starts, prev):\n    return jax.vmap(mi_pth_root)(\n        xs, ps, padding_start=padding_starts, prev=prev)", "  def _matrix_inverse_pth_root_vmap(xs, ps, padding_starts, prev):\n    xs = xs + 1e-3 * jnp.max(jnp.abs(xs)) * jnp.eye(xs.shape[-1], dtype=xs.dtype) * (jnp.arange(xs.shape[-1]) < padding_starts[:, None])[..., None]\n    return jax.vmap(mi_pth_root)(\n        xs, ps, padding_start=padding_starts, prev=prev)")],
         note="a ridge proportional to the largest entry over ALL statistics of the batch couples blocks and parameters"),
    dict(id="c08_graft_norm_per_block", property="C08", expect="silent", edits=[(DS, "    precond_grad_norm = jnp.linalg.norm(precond_grad)", "    precond_grad_norm = jnp.linalg.norm(precond_grad.reshape(-1))")],
         note="control: same norm"),
    # ---- C09
    dict(id="c09_sketchy_tail_sqrt_again", property="C09", edits=[(TFK, "    tail = axis_state.tail * options.second_moment_decay + cutoff**2", "    tail = axis_state.tail * decay + cutoff**2")]),
    dict(id="c09_ds_tail_not_decayed", property="C09", edits=[(DS, "  tail = tail * decay\n  new_tail = tail + rho_t", "  new_tail = tail + rho_t")]),
    dict(id="c09_ds_deflate_by_next", property="C09", edits=[(DS, "  cutoff = s[rank]\n  rho_t = cutoff**2", "  cutoff = s[rank + 1]\n  rho_t = cutoff**2")],
         note="deflates by the (k+2)-th singular value: sketch no longer below the covariance"),
    dict(id="c09_oco_no_deflation", property="C09", edits=[(OCO, "s = (s - rho) * (s + rho)", "s = s * s")]),
    dict(id="c09_sketchy_inverse_without_tail", property="C09", edits=[(TFK, "        jnp.square(jnp.maximum(top_eigs, 0.0))\n        + axis_state.tail * options.second_moment_decay\n    )", "        jnp.square(jnp.maximum(top_eigs, 0.0))\n    )")],
         note="stored inverse roots forget the escaped mass"),
    # ---- C10
    dict(id="c10_pack_tail_row", property="C10", edits=[(DS, "  precond = precond.at[1, -1].set(new_tail)", "  precond = precond.at[2, -1].set(new_tail)")]),
    dict(id="c10_const_mean_over_padded", property="C10", edits=[(DS, "  real_dim = padding_start if padding_start is not None else d", "  real_dim = d")],
         note="mean of the truncated roots taken over padded dimensions (needs padding)"),
    dict(id="c10_negative_rank_no_roll", property="C10", edits=[(DS, "    inv_e = jnp.roll(inv_e, -(d - padding_start))\n    u = jnp.roll(u, -(d - padding_start), axis=1)", "    pass")],
         note="negative rank keeps the padding eigenvectors instead of the smallest real ones (needs padding)"),
    dict(id="c10_apply_complement", property="C10", edits=[(DS, "        complement = g - lowrank_component", "        complement = g - 0.5 * lowrank_component")]),
    # ---- C13
    dict(id="c13_replica_slice_shift", property="C13", edits=[(DS, "        current_replica = lax.axis_index(batch_axis_name)\n        preconditioners, metrics = _matrix_inverse_pth_root_vmap(\n            all_statistics[current_replica],", "        current_replica = lax.axis_index(batch_axis_name)\n        preconditioners, metrics = _matrix_inverse_pth_root_vmap(\n            all_statistics[(current_replica + 1) % num_devices],")],
         note="each replica inverts its neighbour's slice but gathers in replica order"),
    dict(id="c13_pad_exponent_zero", property="C13", edits=[(DS, "    exponents.extend([1 for _ in range(to_pad)])\n    paddings = [len(stat) for stat in statistics] + [0] * to_pad\n\n    if not packed_statistics:", "    exponents.extend([1 for _ in range(to_pad)])\n    paddings = [len(stat) for stat in statistics] + [0] * to_pad\n    if to_pad:\n      packed_statistics[-to_pad - 1] = packed_statistics[-to_pad - 1] * 1.0001\n\n    if not packed_statistics:")],
         note="when padding to a multiple of the device count is needed, the last real statistic is perturbed"),
    dict(id="c13_sharded_to_pad", property="C13", edits=[(DS, "    to_pad = -len(new_padded_statistics) % num_devices_for_pjit\n    if not new_padded_statistics:", "    to_pad = -len(new_padded_statistics) % num_devices_for_pjit\n    if to_pad:\n      new_padded_statistics[0] = new_padded_statistics[0] * 1.0001\n    if not new_padded_statistics:")]),
    # ---- C14
    dict(id="c14_hidden_python_counter", property="C14", edits=[(SM3, "  def update_fn(updates, state, params):\n    stats = state.stats", "  _calls = []\n\n  def update_fn(updates, state, params):\n    _calls.append(1)\n    if len(_calls) == 1:\n      updates = jax.tree.map(lambda g: g * 1.0000001, updates)\n    stats = state.stats")],
         note="first traced call of a fresh optimizer instance behaves differently: state outside the pytree"),
    dict(id="c14_schedule_uses_python_step", property="C14", edits=[(DS, "    lr = learning_rate\n    if callable(learning_rate):\n      lr = learning_rate(step)\n\n    preconditioner_multiplier", "    lr = learning_rate\n    if callable(learning_rate):\n      _LR_CALLS.append(1)\n      lr = learning_rate(step) * (1.0 + 1e-6 * (len(_LR_CALLS) <= 1))\n\n    preconditioner_multiplier"), (DS, "# Small epsilon to avoid divide by zero.\n_EPSILON = 1e-25", "# Small epsilon to avoid divide by zero.\n_EPSILON = 1e-25\n_LR_CALLS = []")],
         note="module-level hidden state alters the first compiled step of a process"),
    # ---- C15
    dict(id="c15_wd_order_swapped", property="C15", edits=[(TFM, "  if options.weight_decay_after_momentum:\n    transforms = momentum_transforms + wd_transforms\n  else:\n    transforms = wd_transforms + momentum_transforms", "  if options.weight_decay_after_momentum:\n    transforms = wd_transforms + momentum_transforms\n  else:\n    transforms = momentum_transforms + wd_transforms")]),
    dict(id="c15_ema_scale_uses_decay", property="C15", edits=[(TFM, "      momentum_transforms.append(optax.scale(1 - options.momentum_decay))", "      momentum_transforms.append(optax.scale(options.momentum_decay))")]),
    dict(id="c15_root_exponent_rank", property="C15", edits=[(TFS, "  p = len(meta.param_shape) * 2", "  p = len(meta.param_shape) * 2 + (len(meta.param_shape) == 3)")],
         note="wrong root exponent for rank-3 (merged) tensors only"),
    dict(id="c15_stats_ema_weights", property="C15", edits=[(TFS, "  return old * decay + new * (1 - decay)", "  return old * decay + new")]),
    dict(id="c15_lr_inside_graft", property="C15", edits=[(TFG, "      return jnp.where(\n          state.count >= start_preconditioning_step,\n          base * multiplier,\n          graft_upd,\n      )", "      return jnp.where(\n          state.count >= start_preconditioning_step,\n          base * multiplier,\n          graft_upd * (1.0 + 1e-3 * jnp.tanh(jnp.linalg.norm(graft_upd))),\n      )")],
         note="warm-up update is not the graft step (nonlinear factor)"),
    dict(id="c15_unmerge_wrong_for_padding", property="C15", edits=[(TFR, "      merged = update[tuple(slice(0, m) for m in shapes.merged_shape)]", "      merged = update[tuple(slice(u - m, u) for m, u in zip(shapes.merged_shape, update.shape))]")]),
    # ---- C17
    dict(id="c17_leftover_loop_again", property="C17", edits=[(REALLOC, "        if extra <= 0:\n          break\n        if realloc[key] < dim:\n          realloc[key] += 1\n          extra -= 1", "        realloc[key] = min(realloc[key] + 1, dim)\n        extra = extra - 1 if realloc[key] + 1 < dim else extra\n        if extra <= 0:\n          break")]),
    dict(id="c17_running_total_again", property="C17", edits=[(REALLOC, "      total_score = sum(score for _, score in sorted_scores[i:])\n", "      total_score = sum(score for _, score in sorted_scores) - sum(score for _, score in sorted_scores[:i])\n")],
         note="remaining total via subtraction: catastrophic cancellation with a dominant score"),
    dict(id="c17_rd_no_plus_one", property="C17", edits=[(REALLOC, "    return int(x // 1) + 1", "    return int(x // 1)")]),
    dict(id="c17_reserve_not_subtracted", property="C17", edits=[(REALLOC, "    group_resource -= group_size\n", "")]),

    # ---- C01
    dict(id="c01_returns_previous_iterate", property="C01", edits=[(DS, "resultant_mat_h = is_converged * mat_h + (1 - is_converged) * old_mat_h", "resultant_mat_h = is_converged * old_mat_h + (1 - is_converged) * mat_h")],
         note="returns the iterate before the last one together with the last iterate's error"),
    dict(id="c01_identity_padding_unmasked", property="C01", edits=[(DS, "    matrix *= ix[:, jnp.newaxis]\n    identity *= ix\n\n  original_matrix = matrix", "    matrix *= ix[:, jnp.newaxis]\n\n  original_matrix = matrix")],
         note="ridge and convergence identity also cover padding rows"),
    dict(id="c01_power_iteration_unnormalised", property="C01", edits=[(DS, "    new_v = new_v / jnp.linalg.norm(new_v)\n\n    s_v = jnp.einsum", "    new_v = new_v / jnp.sqrt(jnp.linalg.norm(new_v))\n\n    s_v = jnp.einsum")],
         note="Rayleigh quotient of a non-unit vector: estimate can exceed lambda_max"),
    dict(id="c01_eigh_wrong_exponent", property="C01", edits=[(DS, "  del prev\n  assert matrix.shape[0] == matrix.shape[1]\n  matrix_size = matrix.shape[0]\n  orig_dtype = matrix.dtype\n  matrix = matrix.astype(_MAT_INV_PTH_ROOT_DTYPE)\n  alpha = jnp.asarray(-1.0 / p, _MAT_INV_PTH_ROOT_DTYPE)\n  identity = jnp.eye(matrix_size, dtype=_MAT_INV_PTH_ROOT_DTYPE)\n  if padding_start is not None:\n    ix = (jnp.arange(matrix_size, dtype=jnp.int32) < padding_start).astype(\n        matrix.dtype)\n    matrix *= ix[jnp.newaxis, :]\n    matrix *= ix[:, jnp.newaxis]\n    identity *= ix\n  if relative_matrix_epsilon:\n    _, max_ev = power_iteration(\n        matrix=matrix,\n        num_iters=100,\n        error_tolerance=error_tolerance,\n        precision=precision,", "  del prev\n  assert matrix.shape[0] == matrix.shape[1]\n  matrix_size = matrix.shape[0]\n  orig_dtype = matrix.dtype\n  matrix = matrix.astype(_MAT_INV_PTH_ROOT_DTYPE)\n  alpha = jnp.asarray(-1.0 / (p + 1), _MAT_INV_PTH_ROOT_DTYPE)\n  identity = jnp.eye(matrix_size, dtype=_MAT_INV_PTH_ROOT_DTYPE)\n  if padding_start is not None:\n    ix = (jnp.arange(matrix_size, dtype=jnp.int32) < padding_start).astype(\n        matrix.dtype)\n    matrix *= ix[jnp.newaxis, :]\n    matrix *= ix[:, jnp.newaxis]\n    identity *= ix\n  if relative_matrix_epsilon:\n    _, max_ev = power_iteration(\n        matrix=matrix,\n        num_iters=100,\n        error_tolerance=error_tolerance,\n        precision=precision,")],
         note="eigh path computes the -1/(p+1) power but reports the eigendecomposition error"),
    dict(id="c01_retry_ridge_100x", property="C01", edits=[(DS, "damped_matrix = matrix + (ridge_epsilon * (10**i) * identity)\n      z =", "damped_matrix = matrix + (ridge_epsilon * (100**i) * identity)\n      z =")],
         note="retries damp by 100^i instead of the documented 10^i (needs a retry to manifest)"),
    dict(id="c01_allpad_not_zeroed", property="C01", edits=[(DS, "    resultant_mat_h = jnp.where(padding_start == 0, 0.0, resultant_mat_h)\n", "")],
         note="all-padding inputs return a non-zero matrix"),
    dict(id="c01_scalar_no_ridge", property="C01", edits=[(DS, "resultant_mat_h = damped_matrix**alpha", "resultant_mat_h = matrix**alpha")],
         note="1x1 branch forgets the ridge"),
    dict(id="c01_control_matrix_padding_unmasked", property="C01", expect="silent", edits=[(DS, "    matrix *= ix[jnp.newaxis, :]\n    matrix *= ix[:, jnp.newaxis]\n    identity *= ix\n\n  original_matrix", "    identity *= ix\n\n  original_matrix")],
         note="control (found equivalent): with the identity still masked, the coupled iteration keeps the padding rows/columns of the root exactly zero and the real block is unaffected (block-diagonal input)"),
    dict(id="c01_control_eigh_val_formula", property="C01", expect="silent", edits=[(DS, "  root = u * jnp.sqrt(inv_e)\n  val = mm(root, root.T)\n", "")],
         note="control: keep val = U diag(inv_e) U' instead of the symmetrised product (same matrix)"),
    # ---- C02
    dict(id="c02_stats_w2_always_one", property="C02", edits=[(DS, "    w1 = beta2\n    w2 = jnp.where(beta2 == 1.0, beta2, 1.0 - beta2)\n    # Parameters that skip", "    w1 = beta2\n    w2 = 1.0\n    # Parameters that skip")]),
    dict(id="c02_exponent_halved", property="C02", edits=[(DS, "    return 2 * num_preconditioners", "    return max(num_preconditioners, 1)")]),
    dict(id="c02_nesterov_drops_w", property="C02", edits=[(DS, "nesterov_momentum_update = w * wd_update + beta1 * momentum_update", "nesterov_momentum_update = wd_update + beta1 * momentum_update")],
         note="only differs with moving_average_for_momentum and nesterov"),
    dict(id="c02_warmup_off_by_one", property="C02", edits=[(DS, "run_shampoo = (step >= start_preconditioning_step)", "run_shampoo = (step > start_preconditioning_step)")]),
    dict(id="c02_graft_multiplier_inverted", property="C02", edits=[(DS, "                        (precond_grad_norm + _EPSILON)) * grafting_update_norm", "                        (grafting_update_norm + _EPSILON)) * precond_grad_norm")]),
    dict(id="c02_rmsprop_weights_swapped", property="C02", edits=[(DS, "          w1 * state.diagonal_statistics.to_float() +\n          w2 * jnp.square(scaled_grad))", "          w2 * state.diagonal_statistics.to_float() +\n          w1 * jnp.square(scaled_grad))")]),
    dict(id="c02_coupled_lr_applied_twice", property="C02", edits=[(DS, "momentum_multiplier = lr if decoupled_learning_rate else 1.0", "momentum_multiplier = lr")]),
    dict(id="c02_decoupled_wd_lr_swapped", property="C02", edits=[(DS, "wd_lr = 1.0 if decoupled_learning_rate else lr", "wd_lr = lr if decoupled_learning_rate else 1.0")]),
    dict(id="c02_block_slot_slip", property="C02", edits=[(DS, "          start=i * num_preconditioners,\n          end=(i + 1) * num_preconditioners,", "          start=i,\n          end=i + num_preconditioners,")],
         note="blocks after the first take the wrong preconditioner slots (needs >=2 blocks and >=2 axes)"),
    dict(id="c02_merge_strict", property="C02", edits=[(DS, "    if product * d <= max_dim:", "    if product * d < max_dim:")],
         note="merging stops one short of the documented limit"),
    dict(id="c02_adagrad_abs", property="C02", edits=[(DS, "state.diagonal_statistics.to_float() + jnp.square(scaled_grad))", "state.diagonal_statistics.to_float() + jnp.abs(scaled_grad))")]),
    dict(id="c02_momenta_swapped_in_state", property="C02", edits=[(DS, "        _quantize_momentum(new_diagonal_momentum),\n        _quantize_momentum(new_momentum),", "        _quantize_momentum(new_momentum),\n        _quantize_momentum(new_diagonal_momentum),")]),
    dict(id="c02_sign_graft_ones", property="C02", edits=[(DS, "grafting_update = jnp.ones_like(sgd_update) * jnp.sign(sgd_update)", "grafting_update = jnp.ones_like(sgd_update)")]),
    dict(id="c02_coupled_wd_after_momentum", property="C02", edits=[(DS, "      shampoo_update_with_wd = shampoo_update + weight_decay * param\n", "      shampoo_update_with_wd = shampoo_update + 0.5 * weight_decay * param\n")]),
    dict(id="c02_stats_contract_wrong_axis", property="C02", edits=[(DS, "  axes = [i for i in range(g.ndim) if i != axis]\n  gram_matrix", "  axes = [i for i in range(g.ndim) if i != (g.ndim - 1 - axis)]\n  gram_matrix")],
         note="Gram matrix taken along the mirrored axis (differs for non-square blocks)"),
    dict(id="c02_control_contract_axis1", property="C02", expect="silent", edits=[(DS, "      g = jnp.tensordot(g, preconditioners[j], axes=[[0], [0]])", "      g = jnp.tensordot(g, preconditioners[j], axes=[[0], [1]])")],
         note="control: preconditioners are symmetric, contracting the other index is equivalent up to rounding"),
    # ---- C03
    dict(id="c03_gate_gt_instead_of_ge", property="C03", edits=[(DS, "    def _skip(error):\n      condition = jnp.logical_or(\n          jnp.logical_not(jnp.isfinite(error)),\n          error >= inverse_failure_threshold)\n      return condition.astype(error.dtype)\n\n    def _select_preconditioner(error, new_p, old_p):\n      return lax.cond(\n          _skip(error), lambda _: old_p, lambda _: new_p, operand=None)\n\n    new_preconditioners_flat = []\n    new_errors_flat = metrics_flat.inverse_pth_root_errors\n    for p, shape, prev_p, error in zip(preconditioners_flat, original_shapes,\n                                       prev_preconditioners, new_errors_flat):\n      new_preconditioners_flat.append(\n          _select_preconditioner(error, p[:shape[0], :shape[1]], prev_p))", "    def _skip(error):\n      condition = jnp.logical_or(\n          jnp.logical_not(jnp.isfinite(error)),\n          error > inverse_failure_threshold)\n      return condition.astype(error.dtype)\n\n    def _select_preconditioner(error, new_p, old_p):\n      return lax.cond(\n          _skip(error), lambda _: old_p, lambda _: new_p, operand=None)\n\n    new_preconditioners_flat = []\n    new_errors_flat = metrics_flat.inverse_pth_root_errors\n    for p, shape, prev_p, error in zip(preconditioners_flat, original_shapes,\n                                       prev_preconditioners, new_errors_flat):\n      new_preconditioners_flat.append(\n          _select_preconditioner(error, p[:shape[0], :shape[1]], prev_p))")],
         note="replicated gate uses > : the non-refresh placeholder error equals the threshold, so statistics get installed on non-refresh steps"),
    dict(id="c03_sharded_isnan_dropped", property="C03", edits=[(DS, "    predicate = jnp.logical_or(\n        jnp.logical_not(jnp.isfinite(errors)),\n        errors >= inverse_failure_threshold)", "    predicate = errors >= inverse_failure_threshold")],
         note="sharded gate forgets the non-finite test"),
    dict(id="c03_gate_isnan_only_again", property="C03", edits=[(DS, "    predicate = jnp.logical_or(\n        jnp.logical_not(jnp.isfinite(errors)),\n        errors >= inverse_failure_threshold)", "    predicate = jnp.logical_or(\n        jnp.isnan(errors),\n        errors >= inverse_failure_threshold)")],
         note="sharded gate tests isnan only: a -inf error (all-NaN 64x64 iterate on XLA CPU) passes; needs the 64x64 configuration"),
    dict(id="c03_scalar_error_zero_again", property="C03", edits=[(DS, "    error = jnp.where(jnp.isfinite(resultant_mat_h).all(), 0.0,\n                      jnp.nan).astype(jnp.float32)", "    error = jnp.array(0, jnp.float32)")],
         note="1x1 branch reports error 0 for a NaN root; needs the all-1x1 configuration"),
    dict(id="c03_sharded_blend_again", property="C03", edits=[(DS, "    new_conditional_preconditioners = jnp.where(\n        predicate, global_stats.preconditioners, new_preconditioners)", "    predicate = predicate.astype(new_preconditioners.dtype)\n    new_conditional_preconditioners = (\n        predicate * global_stats.preconditioners +\n        (1.0 - predicate) * new_preconditioners)")],
         note="the original arithmetic blend (0*NaN leaks)"),
    dict(id="c03_quantized_diag_always_new", property="C03", edits=[(DS, "          _select_preconditioner(error, d[:shape[0]], prev_p.diagonal))", "          d[:shape[0]])")],
         note="quantized mode installs the new diagonal even when the root was rejected"),
    dict(id="c03_placeholder_error_zero", property="C03", edits=[(DS, "          default_training_metrics(\n              generate_fd_metrics\n          ).replace(inverse_pth_root_errors=inverse_failure_threshold))\n      init_state = [preconditioners_init, metrics_init]", "          default_training_metrics(\n              generate_fd_metrics\n          ).replace(inverse_pth_root_errors=0.0))\n      init_state = [preconditioners_init, metrics_init]")],
         note="non-refresh placeholder error 0 instead of the threshold: statistics accepted as preconditioners"),
    dict(id="c03_eigh_inf_again", property="C03", edits=[(DS, "  inv_e = jnp.where((e == 0.0) | (floored_e <= 0.0), 0.0,", "  inv_e = jnp.where((e == 0.0), 0.0,")],
         note="eigh with zero ridge returns inf for singular statistics"),

    # ---- C16
    dict(id="c16_ogd_no_delta", property="C16", edits=[(OCO, "jax.lax.rsqrt(state['t'] + hparams.delta)", "jax.lax.rsqrt(state['t'])")]),
    dict(id="c16_ada_abs", property="C16", edits=[(OCO, "state['diag_h'] = state['diag_h'] + grad**2", "state['diag_h'] = state['diag_h'] + jnp.abs(grad)")]),
    dict(id="c16_row0_replaced", property="C16", edits=[(OCO, "B = B.at[-1].set(grad_input)", "B = B.at[0].set(grad_input)")],
         note="new gradient overwrites the top sketch row instead of the empty last row"),
    dict(id="c16_train_row_index_restarts", property="C16", edits=[(OCOT, "    ix = state['n']", "    ix = idx")],
         note="training loop reads the row at the fori_loop index, which restarts at 0 in every observation chunk"),
    dict(id="c16_train_chunks_not_prepended", property="C16", edits=[(OCOT, "chunks = jnp.diff(obs_ixs, prepend=0)", "chunks = jnp.diff(obs_ixs, append=obs_ixs[-1])")],
         note="history entry i is taken after obs_ixs[i+1] rows instead of obs_ixs[i]"),
    dict(id="c16_no_deflation", property="C16", edits=[(OCO, "s = (s - rho) * (s + rho)", "s = s * s")]),
    dict(id="c16_alpha_rho_not_squared", property="C16", edits=[(OCO, "state['alpha'] += alpha_update_factor * rho**2", "state['alpha'] += alpha_update_factor * rho")]),
    dict(id="c16_sada_reciprocal", property="C16", edits=[(OCO, "  lr = hparams.lr\n  eig_inversion = jax.lax.rsqrt", "  lr = hparams.lr\n  eig_inversion = jnp.reciprocal")]),
    dict(id="c16_rho_second_smallest", property="C16", edits=[(OCO, "rho = s[-1]", "rho = s[-2]")],
         note="deflates by the second smallest singular value: sketch loses more than it accounts for... or alpha disagrees"),
    dict(id="c16_outside_sketch_dropped", property="C16", edits=[(OCO, "update = sketched_precond + inv_alpha * outside_sketch_g", "update = sketched_precond + inv_alpha * g")],
         note="complement term uses g instead of g - P'Pg"),

    # ---- C11
    dict(id="c11_floor", property="C11", edits=[(Q, "quantized = jnp.round(ratio)", "quantized = jnp.floor(ratio)")],
         note="rounding replaced by floor: biased, drifts on re-quantisation, reaches -128"),
    dict(id="c11_buckets128", property="C11", edits=[(Q, "num_buckets = jnp.array(127.0, dtype=float_dtype)", "num_buckets = jnp.array(128.0, dtype=float_dtype)")],
         note="int8 uses 128 buckets: +max wraps"),
    dict(id="c11_max_axis", property="C11", edits=[(Q, "max_abs = jnp.max(jnp.abs(fvalue), axis=0)", "max_abs = jnp.max(jnp.abs(fvalue), axis=0, keepdims=True).max() * jnp.ones(fvalue.shape[1:], fvalue.dtype)")],
         note="one global bucket instead of per column: small columns lose precision"),
    dict(id="c11_diag_dropped", property="C11", edits=[(Q, "      val += jnp.diag(self.diagonal)", "      val += 0.999999 * jnp.diag(self.diagonal)")],
         note="diagonal not reproduced exactly"),
    # ---- C12
    dict(id="c12_sketch_min", property="C12", edits=[(SM3, "dim_diagonal_statistics = jnp.max(updated_diagonal_statistics, axis=axes)", "dim_diagonal_statistics = jnp.min(updated_diagonal_statistics, axis=axes)")],
         note="accumulators take min over the other axes: cover lost"),
    dict(id="c12_axes_off_by_one", property="C12", edits=[(SM3, "axes = list(range(i)) + list(range(i + 1, grad.ndim))", "axes = list(range(i)) + list(range(i + 2, grad.ndim))" )],
         note="wrong reduction axes for rank>=2 (shape error or wrong accumulators)"),
    dict(id="c12_w_beta2", property="C12", edits=[(SM3, "w = (1.0 - beta2) if beta2 != 1.0 else 1.0\n    if grad.ndim < 2:", "w = (1.0 - beta2)\n    if grad.ndim < 2:")],
         note="beta2=1 gives weight 0: accumulators never grow"),
    dict(id="c12_control_min_to_max", property="C12", expect="silent", edits=[(SM3, "min_accumulator = functools.reduce(jnp.minimum, accumulators)", "min_accumulator = functools.reduce(jnp.maximum, accumulators)")],
         note="control: max instead of min keeps the cover property (larger accumulators, smaller steps)"),
]
