"""Source mutations used to test the monitors (selftest/run.py).

Each entry: id, property, edits [(path relative to repo root, old, new)],
expect: 'caught' (default) or 'silent' (behaviour-preserving control).
All of them still compile; they are applied to a scratch copy, never to /repo.
"""
Q = "precondition/quantization_utils.py"
SM3 = "precondition/sm3.py"
DS = "precondition/distributed_shampoo.py"

OCO = "precondition/oco/algorithms.py"

MUTANTS = [
    # ---- C16
    dict(id="c16_ogd_no_delta", property="C16", edits=[(OCO, "jax.lax.rsqrt(state['t'] + hparams.delta)", "jax.lax.rsqrt(state['t'])")]),
    dict(id="c16_ada_abs", property="C16", edits=[(OCO, "state['diag_h'] = state['diag_h'] + grad**2", "state['diag_h'] = state['diag_h'] + jnp.abs(grad)")]),
    dict(id="c16_row0_replaced", property="C16", edits=[(OCO, "B = B.at[-1].set(grad_input)", "B = B.at[0].set(grad_input)")],
         note="new gradient overwrites the top sketch row instead of the empty last row"),
    dict(id="c16_no_deflation", property="C16", edits=[(OCO, "s = (s - rho) * (s + rho)", "s = s * s")]),
    dict(id="c16_alpha_rho_not_squared", property="C16", edits=[(OCO, "state['alpha'] += alpha_update_factor * rho**2", "state['alpha'] += alpha_update_factor * rho")]),
    dict(id="c16_sada_reciprocal", property="C16", edits=[(OCO, "  lr = hparams.lr\n  eig_inversion = jax.lax.rsqrt", "  lr = hparams.lr\n  eig_inversion = jnp.reciprocal")]),
    dict(id="c16_rho_second_smallest", property="C16", edits=[(OCO, "rho = s[-1]", "rho = s[-2]")],
         note="deflates by the second smallest singular value: sketch loses more than it accounts for... or alpha disagrees"),
    dict(id="c16_outside_sketch_dropped", property="C16", edits=[(OCO, "update = sketched_precond + inv_alpha * outside_sketch_g", "update = sketched_precond + inv_alpha * g")],
         note="complement term uses g instead of g - P'Pg"),

    # ---- C11
    dict(id="c11_floor", property="C11", edits=[(Q, "quantized = jnp.round(ratio)", "quantized = jnp.floor(ratio)")],
         note="rounding replaced by floor: biased, drifts on re-quantisation, reaches -128"),
    dict(id="c11_buckets128", property="C11", edits=[(Q, "num_buckets = jnp.array(127.0, dtype=float_dtype)", "num_buckets = jnp.array(128.0, dtype=float_dtype)")],
         note="int8 uses 128 buckets: +max wraps"),
    dict(id="c11_max_axis", property="C11", edits=[(Q, "max_abs = jnp.max(jnp.abs(fvalue), axis=0)", "max_abs = jnp.max(jnp.abs(fvalue), axis=0, keepdims=True).max() * jnp.ones(fvalue.shape[1:], fvalue.dtype)")],
         note="one global bucket instead of per column: small columns lose precision"),
    dict(id="c11_diag_dropped", property="C11", edits=[(Q, "      val += jnp.diag(self.diagonal)", "      val += 0.999999 * jnp.diag(self.diagonal)")],
         note="diagonal not reproduced exactly"),
    # ---- C12
    dict(id="c12_sketch_min", property="C12", edits=[(SM3, "dim_diagonal_statistics = jnp.max(updated_diagonal_statistics, axis=axes)", "dim_diagonal_statistics = jnp.min(updated_diagonal_statistics, axis=axes)")],
         note="accumulators take min over the other axes: cover lost"),
    dict(id="c12_axes_off_by_one", property="C12", edits=[(SM3, "axes = list(range(i)) + list(range(i + 1, grad.ndim))", "axes = list(range(i)) + list(range(i + 2, grad.ndim))" )],
         note="wrong reduction axes for rank>=2 (shape error or wrong accumulators)"),
    dict(id="c12_w_beta2", property="C12", edits=[(SM3, "w = (1.0 - beta2) if beta2 != 1.0 else 1.0\n    if grad.ndim < 2:", "w = (1.0 - beta2)\n    if grad.ndim < 2:")],
         note="beta2=1 gives weight 0: accumulators never grow"),
    dict(id="c12_control_min_to_max", property="C12", expect="silent", edits=[(SM3, "min_accumulator = functools.reduce(jnp.minimum, accumulators)", "min_accumulator = functools.reduce(jnp.maximum, accumulators)")],
         note="control: max instead of min keeps the cover property (larger accumulators, smaller steps)"),
]
