"""Source mutations used to test the monitors (selftest/run.py).

Each entry: id, property, edits [(path relative to repo root, old, new)],
expect: 'caught' (default) or 'silent' (behaviour-preserving control).
All of them still compile; they are applied to a scratch copy, never to /repo.
"""
Q = "precondition/quantization_utils.py"
SM3 = "precondition/sm3.py"
DS = "precondition/distributed_shampoo.py"

OCO = "precondition/oco/algorithms.py"

TFS = "precondition/tearfree/shampoo.py"
TFK = "precondition/tearfree/sketchy.py"
TFR = "precondition/tearfree/reshaper.py"
TFG = "precondition/tearfree/grafting.py"
TFM = "precondition/tearfree/momentum.py"
REALLOC = "precondition/tearfree/reallocation.py"

MUTANTS = [
    # ---- C01
    dict(id="c01_returns_previous_iterate", property="C01", edits=[(DS, "resultant_mat_h = is_converged * mat_h + (1 - is_converged) * old_mat_h", "resultant_mat_h = is_converged * old_mat_h + (1 - is_converged) * mat_h")],
         note="returns the iterate before the last one together with the last iterate's error"),
    dict(id="c01_identity_padding_unmasked", property="C01", edits=[(DS, "    matrix *= ix[:, jnp.newaxis]\n    identity *= ix\n\n  original_matrix = matrix", "    matrix *= ix[:, jnp.newaxis]\n\n  original_matrix = matrix")],
         note="ridge and convergence identity also cover padding rows"),
    dict(id="c01_power_iteration_unnormalised", property="C01", edits=[(DS, "    new_v = new_v / jnp.linalg.norm(new_v)\n\n    s_v = jnp.einsum", "    new_v = new_v / jnp.sqrt(jnp.linalg.norm(new_v))\n\n    s_v = jnp.einsum")],
         note="Rayleigh quotient of a non-unit vector: estimate can exceed lambda_max"),
    dict(id="c01_eigh_wrong_exponent", property="C01", edits=[(DS, "  del prev\n  assert matrix.shape[0] == matrix.shape[1]\n  matrix_size = matrix.shape[0]\n  orig_dtype = matrix.dtype\n  matrix = matrix.astype(_MAT_INV_PTH_ROOT_DTYPE)\n  alpha = jnp.asarray(-1.0 / p, _MAT_INV_PTH_ROOT_DTYPE)\n  identity = jnp.eye(matrix_size, dtype=_MAT_INV_PTH_ROOT_DTYPE)\n  if padding_start is not None:\n    ix = (jnp.arange(matrix_size, dtype=jnp.int32) < padding_start).astype(\n        matrix.dtype)\n    matrix *= ix[jnp.newaxis, :]\n    matrix *= ix[:, jnp.newaxis]\n    identity *= ix\n  if relative_matrix_epsilon:\n    _, max_ev = power_iteration(\n        matrix=matrix,\n        num_iters=100,\n        error_tolerance=error_tolerance,\n        precision=precision,", "  del prev\n  assert matrix.shape[0] == matrix.shape[1]\n  matrix_size = matrix.shape[0]\n  orig_dtype = matrix.dtype\n  matrix = matrix.astype(_MAT_INV_PTH_ROOT_DTYPE)\n  alpha = jnp.asarray(-1.0 / (p + 1), _MAT_INV_PTH_ROOT_DTYPE)\n  identity = jnp.eye(matrix_size, dtype=_MAT_INV_PTH_ROOT_DTYPE)\n  if padding_start is not None:\n    ix = (jnp.arange(matrix_size, dtype=jnp.int32) < padding_start).astype(\n        matrix.dtype)\n    matrix *= ix[jnp.newaxis, :]\n    matrix *= ix[:, jnp.newaxis]\n    identity *= ix\n  if relative_matrix_epsilon:\n    _, max_ev = power_iteration(\n        matrix=matrix,\n        num_iters=100,\n        error_tolerance=error_tolerance,\n        precision=precision,")],
         note="eigh path computes the -1/(p+1) power but reports the eigendecomposition error"),
    dict(id="c01_retry_ridge_100x", property="C01", edits=[(DS, "damped_matrix = matrix + (ridge_epsilon * (10**i) * identity)\n      z =", "damped_matrix = matrix + (ridge_epsilon * (100**i) * identity)\n      z =")],
         note="retries damp by 100^i instead of the documented 10^i (needs a retry to manifest)"),
    dict(id="c01_allpad_not_zeroed", property="C01", edits=[(DS, "    resultant_mat_h = jnp.where(padding_start == 0, 0.0, resultant_mat_h)\n", "")],
         note="all-padding inputs return a non-zero matrix"),
    dict(id="c01_scalar_no_ridge", property="C01", edits=[(DS, "resultant_mat_h = damped_matrix**alpha", "resultant_mat_h = matrix**alpha")],
         note="1x1 branch forgets the ridge"),
    dict(id="c01_matrix_padding_unmasked", property="C01", edits=[(DS, "    matrix *= ix[jnp.newaxis, :]\n    matrix *= ix[:, jnp.newaxis]\n    identity *= ix\n\n  original_matrix", "    identity *= ix\n\n  original_matrix")],
         note="Newton path no longer masks the identity padding block of the input"),
    dict(id="c01_control_eigh_val_formula", property="C01", expect="silent", edits=[(DS, "  root = u * jnp.sqrt(inv_e)\n  val = mm(root, root.T)\n", "")],
         note="control: keep val = U diag(inv_e) U' instead of the symmetrised product (same matrix)"),
    # ---- C02
    dict(id="c02_stats_w2_always_one", property="C02", edits=[(DS, "    w1 = beta2\n    w2 = jnp.where(beta2 == 1.0, beta2, 1.0 - beta2)\n    new_avg_grad", "    w1 = beta2\n    w2 = 1.0\n    new_avg_grad")]),
    dict(id="c02_exponent_halved", property="C02", edits=[(DS, "    return 2 * num_preconditioners", "    return max(num_preconditioners, 1)")]),
    dict(id="c02_nesterov_drops_w", property="C02", edits=[(DS, "nesterov_momentum_update = w * wd_update + beta1 * momentum_update", "nesterov_momentum_update = wd_update + beta1 * momentum_update")],
         note="only differs with moving_average_for_momentum and nesterov"),
    dict(id="c02_warmup_off_by_one", property="C02", edits=[(DS, "run_shampoo = (step >= start_preconditioning_step)", "run_shampoo = (step > start_preconditioning_step)")]),
    dict(id="c02_graft_multiplier_inverted", property="C02", edits=[(DS, "multiplier = (grafting_update_norm / (precond_grad_norm + _EPSILON))", "multiplier = (precond_grad_norm / (grafting_update_norm + _EPSILON))")]),
    dict(id="c02_rmsprop_weights_swapped", property="C02", edits=[(DS, "          w1 * state.diagonal_statistics.to_float() +\n          w2 * jnp.square(scaled_grad))", "          w2 * state.diagonal_statistics.to_float() +\n          w1 * jnp.square(scaled_grad))")]),
    dict(id="c02_coupled_lr_applied_twice", property="C02", edits=[(DS, "momentum_multiplier = lr if decoupled_learning_rate else 1.0", "momentum_multiplier = lr")]),
    dict(id="c02_decoupled_wd_lr_swapped", property="C02", edits=[(DS, "wd_lr = 1.0 if decoupled_learning_rate else lr", "wd_lr = lr if decoupled_learning_rate else 1.0")]),
    dict(id="c02_block_slot_slip", property="C02", edits=[(DS, "          start=i * num_preconditioners,\n          end=(i + 1) * num_preconditioners,", "          start=i,\n          end=i + num_preconditioners,")],
         note="blocks after the first take the wrong preconditioner slots (needs >=2 blocks and >=2 axes)"),
    dict(id="c02_merge_strict", property="C02", edits=[(DS, "    if product * d <= max_dim:", "    if product * d < max_dim:")],
         note="merging stops one short of the documented limit"),
    dict(id="c02_adagrad_abs", property="C02", edits=[(DS, "state.diagonal_statistics.to_float() + jnp.square(scaled_grad))", "state.diagonal_statistics.to_float() + jnp.abs(scaled_grad))")]),
    dict(id="c02_momenta_swapped_in_state", property="C02", edits=[(DS, "        _quantize_momentum(new_diagonal_momentum),\n        _quantize_momentum(new_momentum),", "        _quantize_momentum(new_momentum),\n        _quantize_momentum(new_diagonal_momentum),")]),
    dict(id="c02_sign_graft_ones", property="C02", edits=[(DS, "grafting_update = jnp.ones_like(sgd_update) * jnp.sign(sgd_update)", "grafting_update = jnp.ones_like(sgd_update)")]),
    dict(id="c02_coupled_wd_after_momentum", property="C02", edits=[(DS, "      shampoo_update_with_wd = shampoo_update + weight_decay * param\n", "      shampoo_update_with_wd = shampoo_update + 0.5 * weight_decay * param\n")]),
    dict(id="c02_stats_contract_wrong_axis", property="C02", edits=[(DS, "  axes = [i for i in range(g.ndim) if i != axis]\n  gram_matrix", "  axes = [i for i in range(g.ndim) if i != (g.ndim - 1 - axis)]\n  gram_matrix")],
         note="Gram matrix taken along the mirrored axis (differs for non-square blocks)"),
    dict(id="c02_control_contract_axis1", property="C02", expect="silent", edits=[(DS, "      g = jnp.tensordot(g, preconditioners[j], axes=[[0], [0]])", "      g = jnp.tensordot(g, preconditioners[j], axes=[[0], [1]])")],
         note="control: preconditioners are symmetric, contracting the other index is equivalent up to rounding"),
    # ---- C03
    dict(id="c03_gate_gt_instead_of_ge", property="C03", edits=[(DS, "    def _skip(error):\n      condition = jnp.logical_or(\n          jnp.isnan(error), error >= inverse_failure_threshold)\n      return condition.astype(error.dtype)\n\n    def _select_preconditioner(error, new_p, old_p):\n      return lax.cond(\n          _skip(error), lambda _: old_p, lambda _: new_p, operand=None)\n\n    new_preconditioners_flat = []\n    new_errors_flat = metrics_flat.inverse_pth_root_errors\n    for p, shape, prev_p, error in zip(preconditioners_flat, original_shapes,\n                                       prev_preconditioners, new_errors_flat):\n      new_preconditioners_flat.append(\n          _select_preconditioner(error, p[:shape[0], :shape[1]], prev_p))", "    def _skip(error):\n      condition = jnp.logical_or(\n          jnp.isnan(error), error > inverse_failure_threshold)\n      return condition.astype(error.dtype)\n\n    def _select_preconditioner(error, new_p, old_p):\n      return lax.cond(\n          _skip(error), lambda _: old_p, lambda _: new_p, operand=None)\n\n    new_preconditioners_flat = []\n    new_errors_flat = metrics_flat.inverse_pth_root_errors\n    for p, shape, prev_p, error in zip(preconditioners_flat, original_shapes,\n                                       prev_preconditioners, new_errors_flat):\n      new_preconditioners_flat.append(\n          _select_preconditioner(error, p[:shape[0], :shape[1]], prev_p))")],
         note="replicated gate uses > : the non-refresh placeholder error equals the threshold, so statistics get installed on non-refresh steps"),
    dict(id="c03_sharded_isnan_dropped", property="C03", edits=[(DS, "    predicate = jnp.logical_or(\n        jnp.isnan(errors),\n        errors >= inverse_failure_threshold)", "    predicate = errors >= inverse_failure_threshold")],
         note="sharded gate forgets the NaN test"),
    dict(id="c03_sharded_blend_again", property="C03", edits=[(DS, "    new_conditional_preconditioners = jnp.where(\n        predicate, global_stats.preconditioners, new_preconditioners)", "    predicate = predicate.astype(new_preconditioners.dtype)\n    new_conditional_preconditioners = (\n        predicate * global_stats.preconditioners +\n        (1.0 - predicate) * new_preconditioners)")],
         note="the original arithmetic blend (0*NaN leaks)"),
    dict(id="c03_quantized_diag_always_new", property="C03", edits=[(DS, "          _select_preconditioner(error, d[:shape[0]], prev_p.diagonal))", "          d[:shape[0]])")],
         note="quantized mode installs the new diagonal even when the root was rejected"),
    dict(id="c03_placeholder_error_zero", property="C03", edits=[(DS, "          default_training_metrics(\n              generate_fd_metrics\n          ).replace(inverse_pth_root_errors=inverse_failure_threshold))\n      init_state = [preconditioners_init, metrics_init]", "          default_training_metrics(\n              generate_fd_metrics\n          ).replace(inverse_pth_root_errors=0.0))\n      init_state = [preconditioners_init, metrics_init]")],
         note="non-refresh placeholder error 0 instead of the threshold: statistics accepted as preconditioners"),
    dict(id="c03_eigh_inf_again", property="C03", edits=[(DS, "  inv_e = jnp.where((e == 0.0) | (floored_e <= 0.0), 0.0,", "  inv_e = jnp.where((e == 0.0), 0.0,")],
         note="eigh with zero ridge returns inf for singular statistics"),

    # ---- C16
    dict(id="c16_ogd_no_delta", property="C16", edits=[(OCO, "jax.lax.rsqrt(state['t'] + hparams.delta)", "jax.lax.rsqrt(state['t'])")]),
    dict(id="c16_ada_abs", property="C16", edits=[(OCO, "state['diag_h'] = state['diag_h'] + grad**2", "state['diag_h'] = state['diag_h'] + jnp.abs(grad)")]),
    dict(id="c16_row0_replaced", property="C16", edits=[(OCO, "B = B.at[-1].set(grad_input)", "B = B.at[0].set(grad_input)")],
         note="new gradient overwrites the top sketch row instead of the empty last row"),
    dict(id="c16_no_deflation", property="C16", edits=[(OCO, "s = (s - rho) * (s + rho)", "s = s * s")]),
    dict(id="c16_alpha_rho_not_squared", property="C16", edits=[(OCO, "state['alpha'] += alpha_update_factor * rho**2", "state['alpha'] += alpha_update_factor * rho")]),
    dict(id="c16_sada_reciprocal", property="C16", edits=[(OCO, "  lr = hparams.lr\n  eig_inversion = jax.lax.rsqrt", "  lr = hparams.lr\n  eig_inversion = jnp.reciprocal")]),
    dict(id="c16_rho_second_smallest", property="C16", edits=[(OCO, "rho = s[-1]", "rho = s[-2]")],
         note="deflates by the second smallest singular value: sketch loses more than it accounts for... or alpha disagrees"),
    dict(id="c16_outside_sketch_dropped", property="C16", edits=[(OCO, "update = sketched_precond + inv_alpha * outside_sketch_g", "update = sketched_precond + inv_alpha * g")],
         note="complement term uses g instead of g - P'Pg"),

    # ---- C11
    dict(id="c11_floor", property="C11", edits=[(Q, "quantized = jnp.round(ratio)", "quantized = jnp.floor(ratio)")],
         note="rounding replaced by floor: biased, drifts on re-quantisation, reaches -128"),
    dict(id="c11_buckets128", property="C11", edits=[(Q, "num_buckets = jnp.array(127.0, dtype=float_dtype)", "num_buckets = jnp.array(128.0, dtype=float_dtype)")],
         note="int8 uses 128 buckets: +max wraps"),
    dict(id="c11_max_axis", property="C11", edits=[(Q, "max_abs = jnp.max(jnp.abs(fvalue), axis=0)", "max_abs = jnp.max(jnp.abs(fvalue), axis=0, keepdims=True).max() * jnp.ones(fvalue.shape[1:], fvalue.dtype)")],
         note="one global bucket instead of per column: small columns lose precision"),
    dict(id="c11_diag_dropped", property="C11", edits=[(Q, "      val += jnp.diag(self.diagonal)", "      val += 0.999999 * jnp.diag(self.diagonal)")],
         note="diagonal not reproduced exactly"),
    # ---- C12
    dict(id="c12_sketch_min", property="C12", edits=[(SM3, "dim_diagonal_statistics = jnp.max(updated_diagonal_statistics, axis=axes)", "dim_diagonal_statistics = jnp.min(updated_diagonal_statistics, axis=axes)")],
         note="accumulators take min over the other axes: cover lost"),
    dict(id="c12_axes_off_by_one", property="C12", edits=[(SM3, "axes = list(range(i)) + list(range(i + 1, grad.ndim))", "axes = list(range(i)) + list(range(i + 2, grad.ndim))" )],
         note="wrong reduction axes for rank>=2 (shape error or wrong accumulators)"),
    dict(id="c12_w_beta2", property="C12", edits=[(SM3, "w = (1.0 - beta2) if beta2 != 1.0 else 1.0\n    if grad.ndim < 2:", "w = (1.0 - beta2)\n    if grad.ndim < 2:")],
         note="beta2=1 gives weight 0: accumulators never grow"),
    dict(id="c12_control_min_to_max", property="C12", expect="silent", edits=[(SM3, "min_accumulator = functools.reduce(jnp.minimum, accumulators)", "min_accumulator = functools.reduce(jnp.maximum, accumulators)")],
         note="control: max instead of min keeps the cover property (larger accumulators, smaller steps)"),
]
