#!/bin/bash
# usage: selftest/mutant.sh <patch.diff> <Cxx> [extra ./check args]
# Applies a patch to a scratch copy of /repo (outside /repo and /verif), runs the check
# against it (VMON_REPO), prints the verdict, removes the copy.  Evidence goes to a temp file.
set -u
patch=$(realpath "$1"); prop=$2; shift 2
scratch=$(mktemp -d /tmp/vmon_mut_XXXXXX)
cp -r /repo/precondition "$scratch/precondition"
( cd "$scratch" && patch -p1 -s < "$patch" ) || { echo "PATCH FAILED"; rm -rf "$scratch"; exit 3; }
cd "$(dirname "$0")/.."
VMON_REPO="$scratch" VMON_EVIDENCE="$scratch/evidence.json" ./check "$prop" "$@" > "$scratch/out.txt" 2>&1
rc=$?
grep -E "^(VIOLATION|INCONCLUSIVE|KNOWN-FINDING|C[0-9]+ )" "$scratch/out.txt" | cut -c1-330
# replays written for a mutant are not evidence about /repo
git -C "$(pwd)" status --porcelain replays 2>/dev/null | awk '{print $2}' | xargs -r rm -rf
rm -rf "$scratch"
echo "rc=$rc"
exit $rc
