#!/venv/bin/python
"""Regenerates MANIFEST.json from the table below (run from /verif)."""
import json, os, sys
ROOT = os.path.dirname(os.path.dirname(os.path.abspath(__file__)))
sys.path.insert(0, ROOT)
from tools.manifest_table import CHECKS, NOT_APPLICABLE  # noqa

props = [json.loads(l)["id"] for l in open(os.path.join(ROOT, "properties.jsonl"))]
checks = []
for pid in props:
  if pid not in CHECKS:
    continue
  c = CHECKS[pid]
  checks.append({
      "property_id": pid,
      "quick_cmd": "./check %s --tier quick" % pid,
      "thorough_cmd": "./check %s --tier thorough" % pid,
      "evidence_file": "/verif/evidence/%s.json" % pid,
      "replay_cmd_template": "./check %s --replay {path}" % pid,
      "engine": "vmon",
      "level_claimed": {"category": c["level"], "text": c["text"], "design_ref": c["design_ref"]},
      "level_note": c["note"],
      "technique": c["technique"],
  })
na = [{"property_id": p, "reason": NOT_APPLICABLE.get(p, "check not built yet in this round (runtime monitor planned, see DESIGN.md section 4)")}
      for p in props if p not in CHECKS]
m = {
    "version": 1,
    "setup_cmd": "/venv/bin/python -m pip install -q --no-index --find-links /opt/veriftools/wheels --target /verif/.deps icontract deal || true",
    "hooks": {
        "guard": "PRECONDITION_VERIF",
        "enable": "harness-side taps only: workers set PRECONDITION_VERIF=1 and rebind module attributes of the editable install (/repo working tree, or VMON_REPO) before constructing optimizers; nothing is built; no source hook exists in /repo",
        "baseline_off_cmd": "cd /repo && /venv/bin/python -m pytest -q -p no:cacheprovider --timeout=900 --continue-on-collection-errors -n 12",
        "source_commits": [],
        "add_only": True,
    },
    "engines": [{"name": "vmon", "path": "/verif/vmon", "serves_properties": [c["property_id"] for c in checks],
                 "kind_free_text": "runtime monitoring: generated/hostile workloads run through the real JAX code in fresh worker processes; reference-model, invariant and history oracles observe every call/transition"}],
    "checks": checks,
    "not_applicable": na,
    "notes": "All checks: ./check <id> --tier quick|thorough [--seed N]; VERIF_SEED/VERIF_TIER honoured; exit 0 held, 1 VIOLATION, 2 INCONCLUSIVE. Known findings: known_findings.json. Fix commits in /repo are listed there with status=fixed.",
}
json.dump(m, open(os.path.join(ROOT, "MANIFEST.json"), "w"), indent=1)
print("checks:", [c["property_id"] for c in checks], "not_applicable:", [n["property_id"] for n in na])
