"""Per-property manifest entries (only properties whose check is built and was run on the unchanged tree)."""
CHECKS = {
    "C11": dict(
        level="exploration",
        technique="runtime monitor: exact float64 oracle on every from_float_value/to_float call over bit-pattern generated float32 tensors",
        design_ref="DESIGN.md section 4 C11",
        text="Every generated tensor (12 families incl. all-exponent bit patterns, sub-normal, near-overflow, ties at half buckets, zero/constant columns; rank 1-3; int8/int16/bfloat16/float32; with and without diagonal extraction) is quantised and dequantised by the real code and compared with exact float64 arithmetic: half-bucket bound, integer range, exact zeros/diagonal, idempotent re-quantisation over 3 rounds. Sampling, not proof; thousands of distinct tensors per run.",
        note="Trusted: NumPy float64 arithmetic; rounding slack 8*N*2^-24 buckets. The sub-normal-bucket flush (XLA-CPU FTZ) is a recorded known finding.",
    ),
}
NOT_APPLICABLE = {}
