"""Per-property manifest entries (only properties whose check is built and was run on the unchanged tree)."""
CHECKS = {
    "C11": dict(
        level="exploration",
        technique="runtime monitor: exact float64 oracle on every from_float_value/to_float call over bit-pattern generated float32 tensors",
        design_ref="DESIGN.md section 4 C11",
        text="Every generated tensor (12 families incl. all-exponent bit patterns, sub-normal, near-overflow, ties at half buckets, zero/constant columns; rank 1-3; int8/int16/bfloat16/float32; with and without diagonal extraction) is quantised and dequantised by the real code and compared with exact float64 arithmetic: half-bucket bound, integer range, exact zeros/diagonal, idempotent re-quantisation over 3 rounds (float storage is exercised with the extract_diagonal flag too). In situ: quantised state of the real pmap optimizer must be a fixed point of quantize(dequantize(.)), and a stored preconditioner triple must be the previous one or what from_float_value returned in that step - also across a gradient spike that overflows one leaf's statistics (rejected non-finite roots). Sampling, not proof; thousands of distinct tensors per run.",
        note="Trusted: NumPy float64 arithmetic; rounding slack 8*N*2^-24 buckets. The sub-normal-bucket flush (XLA-CPU FTZ) is a recorded known finding.",
    ),
}
CHECKS.update({
    "C01": dict(
        level="exploration",
        technique="runtime monitor: float64 residual/padding/symmetry/Rayleigh oracle on every observed call of the real inverse-root routines (direct jitted calls on generated PSD matrices and calls tapped inside real optimizer runs)",
        design_ref="DESIGN.md section 4 C01",
        text="Every call of matrix_inverse_pth_root (Newton, eigh, LOBPCG-deflated) made by the workload is checked in float64: finite, exactly zero padding, symmetric to 8*n*u*kappa, and whenever the reported error is below 0.1 the true residual max|X^p(A+dI)-I| is at most the reported error plus 64*n*p*u*kappa, with d reconstructed from the documented ridge rule (replica of the documented power iteration cross-checked with the reported estimate); reported lambda_max never above the true one. Inputs are sampled inside kappa<=1e8 (1.6k calls quick, ~25k thorough), special families included, plus rank-below-k inputs for LOBPCG (fixed regression input of the known finding lobpcg-breakdown-rank-below-k: jax's lobpcg_standard returns NaN eigenpairs, root and error NaN). Sampling, not proof.",
        note="Trusted: NumPy/LAPACK float64 eigvalsh and matrix_power. Float32 inputs only get the structural clauses. Dishonesty smaller than the slack is invisible.",
    ),
    "C06": dict(
        level="exploration",
        technique="runtime contracts (icontract postconditions on the real helpers) + round-trip drivers on arange tensors, shape space enumerated exhaustively up to a bound",
        design_ref="DESIGN.md section 4 C06",
        text="icontract postconditions on merge_small_dims, BlockPartitioner.partition/merge_partitions, Preconditioner.shapes_for_preconditioners/updated_statistics_from_grad/preconditioned_grad, Tearfree _blockify/_deblockify and reshaper._derive_shapes are evaluated on every call while a driver walks every shape up to the bound (rank 0..5, dims 1..3/4) x block sizes x merge limits x preconditioner types on index-valued float64 tensors: blocks equal the predicted contiguous slices, inverse after forward is the identity bitwise, announced preconditioner list equals the produced one, Gram statistics exact, identity preconditioning is the identity and distinct per-slot scalings land on the right block/axis. Exhaustive inside the bound (evidence exhaustive=true), nothing outside it.",
        note="Trusted: NumPy slicing as the model of 'contiguous sub-tensor'. Block size 0 (blocking disabled) is outside the enumerated space.",
    ),
    "C10": dict(
        level="exploration",
        technique="runtime monitor: dense-matrix oracle for pack/unpack (exhaustive over (d,r)), packed application and packed root (float64 eigh reference with spectral-gap guard)",
        design_ref="DESIGN.md section 4 C10",
        text="pack/unpack are checked to be mutually inverse bitwise for every admissible (d,r), |r|+2<d<=12 (20 thorough), both signs, x64 on and off; Preconditioner.preconditioned_grad with packed preconditioners is compared with tensordot by the dense c(I-VV')+V diag(e)V' on every axis of rank 1..3 gradients (has_zeros => identity; complement weight exactly 0 with the flag unset => V diag(e) V'); _low_rank_root is compared as a dense matrix with the exact float64 truncated root (top or bottom |r| directions, mean of the rest over unpadded dims) with padding, relative/absolute ridge, p 1..8; in-situ: the packed roots stored by the real optimizer (compression_rank +-1, +-2, statistic sizes 3..9) against the truncated root of the statistics stored in the same state.",
        note="Trusted: NumPy float64 eigh. Cases without a 1e-3 relative spectral gap at the cut are skipped (counted).",
    ),
    "C12": dict(
        level="exploration",
        technique="runtime monitor: exact float64 per-entry second-moment accumulator run in lock-step with the real sm3 transformation",
        design_ref="DESIGN.md section 4 C12",
        text="After every public update the accumulators in state are compared with an exact float64 decayed sum of squared (float32) gradients: min over a coordinate's accumulators >= nu, monotone for beta2=1, recovered pre-momentum step <= AdaGrad/RMSProp step, equality for rank-1. 640 (config, history) cases quick over ranks 1-4 incl. unit dims, 7 history families, beta1/beta2/weight decay/normalisation; ~5% run 600 steps with bfloat16 parameters and gradients (accumulator clauses, 2^-5 slack for bfloat16 term rounding).",
        note="Relative slack 1e-5 (float32 state). The exact SM3-II recurrence is deliberately not asserted (only the cover property the statement makes).",
    ),
    "C16": dict(
        level="exploration",
        technique="runtime monitor: closed-form and dense-matrix float64 oracles on every state returned by the OCO init/update pair",
        design_ref="DESIGN.md section 4 C16",
        text="OGD/ADA iterates vs closed forms; for the four sketched algorithms after every update: last sketch row zero, S<=C<=S+(sum rho^2)I on the documented sketched inputs with rho recomputed independently, alpha recurrence per algorithm (S_ADA: delta + sum rho^2), iterate step vs dense (alpha I + sketch)^p g, and S_ADA == exact full-matrix AdaGrad on histories of rank < sketch size with delta>0. 640 (config, history) cases quick, T<=20.",
        note="x64 on. ADA_FD is driven with delta>0 only (0/0 otherwise); dense cross-check skipped when cond>1e8.",
    ),
    "C17": dict(
        level="exploration",
        technique="runtime monitor: budget/range postcondition on every create_redist_dict result over generated synthetic checkpoint states",
        design_ref="DESIGN.md section 4 C17",
        text="create_redist_dict is called on synthetic states in the checkpoint layout (1-8 layers, 1-3 axes, shared/unshared dims, 7 score families incl. float32-cancelling and all-zero, 5 scoring rules, running average) and every result is checked: integer rank in [1,dim] per axis, per equal-dim group sum <= size*base; any exception is a violation. 960 instances quick.",
        note="Three genuine defects found by this monitor were repaired in /repo (fix: commits 6341441, e4a979f, 36b531d).",
    ),
})
CHECKS.update({
    "C02": dict(
        level="exploration",
        technique="runtime monitor: step-wise conformance of every observed optimizer transition to an independent float64 reference transition model with running floating-point error bounds",
        design_ref="DESIGN.md section 4 C02, section 2.4",
        text="Every transition (state_t, grads_t) -> (update_t, state_t+1) of the real distributed_shampoo (replicated-jit, pmap with int16/int8 quantised state, sharded on a 2-device mesh; x64 on, float32 trees) is checked stage by stage against a NumPy float64 model written from the documentation and applied to the real pre-state: statistics recurrence (entrywise gamma_k bound), acceptance gate and residual of the stored root against the stored statistics, update, both momenta, grafting accumulator, count. ~250 random (config, tree, history, mode) cases x 6 steps in the quick tier (~4000 x 6-12 thorough); one case in five runs with generate_training_metrics=False (errors unobservable: a replaced root is held to the threshold itself, for any of the six possible ridge escalations).",
        note="Trusted: the reference model (vmon/refmodels/ds_ref.py) as the reading of the documentation; NumPy float64. Differences below the error bound (e.g. the 1e-25 guard) are invisible; compression/FD/LOBPCG representations are covered by C05/C09/C10 instead.",
    ),
    "C03": dict(
        level="fault_enumeration",
        technique="runtime monitor over fault-injected histories: offline acceptance-gate checker on bitwise state diffs and reported errors, all fault words up to length T enumerated per configuration",
        design_ref="DESIGN.md section 4 C03",
        text="For each of 192 configurations (threshold x epsilon incl. 0 x Newton/eigh x interval x jit/pmap-quantised/sharded x x64 on/off) plus 72 configurations with other statistic sizes (all 1x1; one 64x64; a padded 1x1 among larger ones), 24 with a 1600-entry leaf, 48 with compressed / frequent-directions (with and without reset_preconditioner) / LOBPCG-deflated (top-1; top-2 after one iteration) / warm-started roots, 12 with normalised grafting and 12 without training metrics, every word of length 3 (thorough: 5, <=3 faults) over {normal, zero, tiny, huge, overflow, NaN, Inf} gradients is replayed through the real compiled update; after every step each stored preconditioner must be bit-identical to before or be installed on a refresh step with a finite reported error strictly below the threshold, must be finite, and moderate histories must give finite updates; on every moderate word (no overflow/NaN/Inf letter) an installed float64 root is re-verified with the C01 residual oracle against the statistics stored in the same state ('verified' is not taken on trust). 123k words / 143k steps quick (~10k installed roots re-verified), ~185k NaN rejections and ~17k threshold rejections observed.",
        note="Exhaustive over the stated alphabet/length/configuration grid only; nine fixed trees. Four leaks (1x1 statistics, -inf error on 64x64 statistics, NaN frequent-directions sketch accepted, overflowing graft-norm transplant) were repaired in /repo.",
    ),
})
CHECKS.update({
    "C04": dict(
        level="exploration",
        technique="runtime monitor: offline checker of recorded state-diff histories against an explicit schedule automaton (allowed/required change sets), plus residual freshness oracle and reference warm-up update",
        design_ref="DESIGN.md section 4 C04",
        text="Successive optimizer states are diffed bitwise (statistics, preconditioners, diagnostics, count) at every step and the observed change set is compared with the automaton computed from (statistics interval, preconditioner interval incl. the lr-scheduled formula, start step): nothing may change off schedule, statistics must change on statistics steps, preconditioners must change on refresh steps when statistics moved and the error is accepted, the stored root must invert the statistics stored in the same state (stale roots would fail: counted), count advances by one, updates before/after the start step equal the reference grafting / preconditioned update (coupled weight decay 0.01 under Nesterov momentum). Grid walked completely: s,p in 1..3 (thorough 1..5) x start x {jit, pmap-quantised, sharded} + lr-scheduled intervals + Tearfree Shampoo (stat/precond freq) + Sketchy (update_freq) + grafting counter.",
        note="Grid bounds as stated in the evidence rule; one fixed two-leaf tree per driver.",
    ),
    "C05": dict(
        level="exploration",
        technique="runtime monitor: closed-form grafting steps from the monitor's own accumulators + reference application of the preconditioner stored in the real state (dense reconstruction of packed / quantised forms)",
        design_ref="DESIGN.md section 4 C05",
        text="With momentum/weight decay off and lr=1 (or a coupled learning rate folded into the graft step, with and without scaled-norm clipping) the returned update is minus the pre-momentum update; per leaf and step it is compared with (a) the closed-form graft step before the start step and for skipped/masked leaves, (b) afterwards: norm equal to the graft step's norm and componentwise equal (within the running error bound) to the stored preconditioner applied to the gradient and rescaled, zero when that is zero. distributed_shampoo graft types 1..6 x {full, compressed +r/-r, FD sketch, int16-quantised, sharded} x shapes rank 1-4 x dense/entry-sparse histories; Tearfree {SGD, RMSProp, AdaFactor, none} x {Shampoo, Sketchy} with masking, preconditioner frequency {1,3} and row-sparse histories (exactly-zero directions observed).",
        note="AdaFactor's closed form is optax.adafactor itself (outside the repository). FD runs with x64 off.",
    ),
})
CHECKS.update({
    "C07": dict(
        level="exploration",
        technique="runtime monitor: tree-structure/shape/dtype signature fixed-point checker over generated option combinations, exception classifier (explicit rejection vs internal error), lax.scan carry as a real consumer, sharded declaration cross-check",
        design_ref="DESIGN.md section 4 C07",
        text="Random combinations of every constructor argument of distributed_shampoo (jit / pmap / sharded), sm3 and tearfree over trees with ranks 0-4 and unit dims are constructed, initialised and updated 4 times: signatures of state (treedef equality + leaf shapes/dtypes) must be a fixed point, updates must mirror the parameters, the step must be accepted as a lax.scan carry, any exception must be an explicit explanatory rejection raised on purpose, and in sharded mode init_fn / shape_and_dtype_fn / pspec_fn must describe the same tree with equal shapes and dtypes. 462 configurations quick (~6300 thorough), incl. forced x64+LOBPCG cases, pmap over one and two devices, and Tearfree trees on the boundary of the blocking validation (every dimension 1x or 2x the block size).",
        note="The rejection rule is deliberately lenient (documented in dsharness.classify_exception; an assertion message counts as explanatory only with >= 3 alphabetic words). 11 defects found by this monitor were repaired in /repo (see known_findings.json, status=fixed).",
    ),
    "C08": dict(
        level="exploration",
        technique="runtime monitor: metamorphic oracle (blocked tensor vs its blocks as separate leaves; leaf alone vs with companions) on real updates",
        design_ref="DESIGN.md section 4 C08",
        text="For generated layouts (1 or 2 blocked axes, ragged last blocks) and per-block gradient scales spanning 1e-6..1e6 the real update of the blocked tensor is compared block by block with the updates obtained when the same blocks are separate leaves (equal without grafting, parallel with one factor when grafting is on), and with the update of the same leaf when companion leaves of other shapes/scales are added (sorting before or after it, of another rank, with larger statistics, or skipping preconditioning altogether); and with the same block optimised alone in its own optimizer; distributed_shampoo (x64 on/off, Newton/eigh, graft NONE/SGD/RMSProp, jit / pmap-quantised / 2-device pmap / sharded) and Tearfree Shampoo.",
        note="Relative tolerance 2e-5 (float32 reduction order), 1e-9 for Tearfree under x64; bitwise-equal counts reported. distributed_shampoo cases use a relative ridge (statistics must resolve the ridge in float32, DESIGN 2.4 rule 4).",
    ),
    "C09": dict(
        level="exploration",
        technique="runtime monitor: exact-covariance shadow state and PSD-order bracket / escaped-mass recurrence oracle after every frequent-directions step, four drivers",
        design_ref="DESIGN.md section 4 C09",
        text="The monitor keeps the exact b-discounted covariance (plus the ridge the configuration adds on the sketch span) and after every FD step of (A) _fd_update_root fed by frequent_directions_update, (B) Tearfree Sketchy via its public transformation (incl. ekfac_svd with update_freq 2-3, where a trial FD step runs every optimizer step), (C) the OCO sketches, (D) the packed sketches inside distributed_shampoo state (jit, 2-device pmap, sharded; with and without gradient averaging, where the sketch must absorb the documented window mean), checks orthonormal-or-zero directions, l,t >= 0, S <= C <= S+tI, t' = b t + rho with rho recomputed independently, zero-gradient and low-rank exactness, stored inverse roots = (l+t+eps)^(-1/p).",
        note="Driver D on statistics smaller than the batch maximum reproduces a recorded known finding (packed sketch truncated). PSD-order tolerance 1e-10 (float64) / 2e-4 (float32) of ||C||.",
    ),
    "C13": dict(
        level="exploration",
        technique="runtime monitor: cross-run equality oracle over device counts (pmap on D forced host devices, sharded under a D-device mesh) against the single-device run",
        design_ref="DESIGN.md section 4 C13",
        text="For trees whose number of statistics N covers every residue modulo D, the real update is run under jax.pmap on D = 1..8 devices (full / int16-quantised / compressed / eigh / frequent-directions / with an always-rejected leaf, with and without training metrics) and under a D-device mesh in sharded mode; every device's updates and complete final state must equal device 0's and the D=1 run (bitwise in most leaves; 2e-5 relative fallback; rounding-noise diagnostics compared absolutely or not at all).",
        note="Forced host-platform CPU devices; D exhaustive in 1..8; N in {1,2,3,5,7,12} quick, 14 values up to 29 thorough.",
    ),
    "C14": dict(
        level="fault_enumeration",
        technique="runtime monitor over crash points: every interruption step is resumed in a fresh interpreter from flax-serialized state and compared bitwise with the uninterrupted run",
        design_ref="DESIGN.md section 4 C14",
        text="For 22 optimizer variants (distributed_shampoo full/eigh/pmap-quantised/compressed +-/FD/FD with gradient averaging/FD diagnostics next to a skipped parameter/RMSProp+schedule/sharded/sharded multi-block/AdaGrad/bfloat16 parameters with quantised state, sm3 with and without momentum, Tearfree Shampoo/Sketchy/RMSProp graft, and three un-jitted variants where Python-side hidden state would act at every call) x 2 seeds, state_k is serialized after every k in 0..T and restored into a freshly constructed optimizer in a new process; all later updates and the final state must be bit-identical and the restored tree must have the template's structure. 308 fresh-process resumes quick (~1400 thorough). A variant the constructor rejects makes the run inconclusive.",
        note="Same machine and XLA build; serialization = flax.serialization.to_bytes/from_bytes.",
    ),
    "C15": dict(
        level="exploration",
        technique="runtime monitor: step-wise conformance of tearfree updates to an independent float64 reference of the documented chain, plus lr-linearity and merge metamorphic oracles",
        design_ref="DESIGN.md section 4 C15",
        text="Every update of tearfree(lr, options) over random option combinations (Shampoo under x64 at 1e-7 relative, Sketchy in float32 at 3e-3 on well-separated spectra) is compared with a NumPy float64 model of -lr(t)*momentum(weight_decay(graft(second_order(merge/pad g)))) with per-block 1e-6 eigenvalue cut-off, the frequent-directions root and {none, SGD, RMSProp, AdaFactor} grafting (AdaFactor's step from optax.adafactor itself); runs with lr and 2*lr must be doubled to 4 ulps; shapes that merge to the same tensor must deliver the same values.",
        note="Reference-discontinuity cases (eigenvalue within 2x of the cut-off, no spectral gap at the sketch rank, escaped mass exactly zero) are skipped and counted.",
    ),
})
NOT_APPLICABLE = {}
