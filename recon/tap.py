import warnings, sys; warnings.filterwarnings("ignore")
import jax, jax.numpy as jnp, numpy as np
jax.config.update("jax_enable_x64", True)
from precondition import distributed_shampoo as ds
events=[]
orig=ds.matrix_inverse_pth_root
def tapped(matrix, p, *a, **kw):
    X, m = orig(matrix, p, *a, **kw)
    def cb(matrix, p, X, err, ps):
        events.append((np.asarray(matrix).shape, int(p), float(err), None if ps is None else int(ps)))
    jax.debug.callback(cb, matrix, p, X, m.inverse_pth_root_errors, kw.get('padding_start'))
    return X, m
ds.matrix_inverse_pth_root = tapped
params={'a': jnp.ones((6,4),jnp.float32), 'b': jnp.ones((5,),jnp.float32)}
opt=ds.distributed_shampoo(0.1,4,preconditioning_compute_steps=2,start_preconditioning_step=1)
st=opt.init(params); upd=jax.jit(opt.update)
rng=np.random.default_rng(0)
for t in range(4):
    g=jax.tree.map(lambda p: jnp.asarray(rng.standard_normal(p.shape),jnp.float32), params)
    u,st=upd(g,st,params); jax.block_until_ready(u); jax.effects_barrier()
    print('step',t,'events so far',len(events))
print(events[:6])
