import time, warnings
warnings.filterwarnings("ignore")
import jax, jax.numpy as jnp, numpy as np
jax.config.update("jax_enable_x64", True)
from precondition import distributed_shampoo as ds
params = {'a': jnp.ones((6,4), jnp.float32), 'b': jnp.ones((5,), jnp.float32), 'c': jnp.ones((3,4,2), jnp.float32)}
rng = np.random.default_rng(0)
def G(): return jax.tree.map(lambda p: jnp.asarray(rng.standard_normal(p.shape), jnp.float32), params)
for jit in (True, False):
  for cfg in range(3):
    t0=time.time()
    opt = ds.distributed_shampoo(0.1, 4, start_preconditioning_step=1, graft_type=ds.GraftingType(cfg+1), beta2=0.9+0.01*cfg)
    st = opt.init(params)
    upd = jax.jit(opt.update) if jit else opt.update
    u, st = upd(G(), st, params); jax.block_until_ready(u)
    t1=time.time()
    for _ in range(5):
        u, st = upd(G(), st, params)
    jax.block_until_ready(u)
    t2=time.time()
    print('jit',jit,cfg,'first',round(t1-t0,2),'5 more',round(t2-t1,2))
