import warnings, sys, time; warnings.filterwarnings("ignore")
import jax, jax.numpy as jnp, numpy as np
jax.config.update("jax_enable_x64", True)
from precondition import distributed_shampoo as ds
import ref_ds as R
rng=np.random.default_rng(int(sys.argv[1]))
def rel(a,b):
    a=np.asarray(a,np.float64); b=np.asarray(b,np.float64)
    return float(np.abs(a-b).max()/(np.abs(b).max()+1e-300)) if a.size else 0.0
def gencfg():
    c=dict(block_size=int(rng.choice([2,3,4,8])), beta1=float(rng.choice([0.0,0.9,0.5])), beta2=float(rng.choice([1.0,0.999,0.9])),
      graft_type=int(rng.integers(0,7)), nesterov=bool(rng.integers(0,2)), moving_average_for_momentum=bool(rng.integers(0,2)),
      weight_decay=float(rng.choice([0.0,0.05])), decoupled_weight_decay=bool(rng.integers(0,2)), decoupled_learning_rate=bool(rng.integers(0,2)),
      start_preconditioning_step=int(rng.choice([0,1,2,3])), preconditioning_compute_steps=int(rng.choice([1,2,3])), statistics_compute_steps=int(rng.choice([1,2])),
      best_effort_shape_interpretation=bool(rng.integers(0,2)), merge_small_dims_block_size=int(rng.choice([4,6,16,4096])),
      exponent_override=int(rng.choice([0,0,0,2,3])), eigh=bool(rng.integers(0,2)), precondtioner_type=int(rng.choice([1,1,2,3])),
      matrix_epsilon=float(rng.choice([1e-6,1e-3,1e-9])), relative_matrix_epsilon=bool(rng.integers(0,2)),
      skip_preconditioning_rank_lt=int(rng.choice([1,2,0])), skip_preconditioning_dim_size_gt=int(rng.choice([4096,7])),
      diagonal_epsilon=float(rng.choice([1e-10,1e-3])), learning_rate=float(rng.choice([0.1,1.0,0.01])))
    return c
pool=[(5,),(4,3),(6,2),(2,3,4),(3,2,2,2),(9,2),(7,),(2,2),(8,8)]
stats=dict(steps=0, maxrel_stats=0, maxrel_root=0, maxrel_upd=0, maxrel_mom=0, roots=0)
bad=0; t0=time.time()
for case in range(int(sys.argv[2])):
    c=gencfg(); cfg=R.Cfg(**c)
    shp=[pool[int(rng.integers(0,len(pool)))] for _ in range(int(rng.integers(1,4)))]
    # avoid INPUT/OUTPUT with merged rank<=1 (known assertion)
    params={f'p{j}': jnp.asarray(rng.standard_normal(s), jnp.float32) for j,s in enumerate(shp)}
    kw=dict(c); kw['graft_type']=ds.GraftingType(c['graft_type']); kw['precondtioner_type']=ds.PreconditionerType(c['precondtioner_type'])
    lr=kw.pop('learning_rate')
    try:
        opt=ds.distributed_shampoo(lr, **kw); st=opt.init(params); upd=jax.jit(opt.update)
        T=6
        for t in range(T):
            g={k: jnp.asarray(rng.standard_normal(v.shape)*10**rng.uniform(-2,2), jnp.float32) for k,v in params.items()}
            u, st2 = upd(g, st, params)
            for k in params:
                shape=tuple(params[k].shape); pre=st.stats[k]; post=st2.stats[k]
                if not R.skip(cfg, shape):
                    es=R.expected_stats(cfg, shape, g[k], pre.statistics, t)
                    for a,b in zip(post.statistics, es):
                        r=rel(a,b); stats['maxrel_stats']=max(stats['maxrel_stats'],r)
                        if r>1e-5: raise RuntimeError(f'stats mismatch {r} {k} t={t}')
                    ts=R.tshape(cfg, shape); p=R.exponent(cfg, len(ts))
                    if t % cfg.preconditioning_compute_steps == 0:
                        for i,(S,P,Pold) in enumerate(zip(post.statistics, post.preconditioners, pre.preconditioners)):
                            err=float(post.training_metrics.inverse_pth_root_errors[i])
                            if err<cfg.inverse_failure_threshold:
                                S64=np.asarray(S,np.float64); n=S64.shape[0]
                                maxsize=max(s.shape[0] for kk in params for s in st.stats[kk].statistics)
                                base = R.power_iteration_replica(S64, maxsize, tol=1e-6) if cfg.relative_matrix_epsilon else 1.0
                                if cfg.eigh: d=cfg.matrix_epsilon*max(base,1e-6)
                                else:
                                    retr=int(post.training_metrics.total_retries[i]); d=cfg.matrix_epsilon*max(base,1e-25)*10**(retr-1)
                                r=min(rel(P,R.exact_root(S64,p,d,True)), rel(P,R.exact_root(S64,p,d,False))); stats['maxrel_root']=max(stats['maxrel_root'],r); stats['roots']+=1
                                if r>1e-4: raise RuntimeError(f'root mismatch {r} {k} t={t} stat{i} err={err} d={d}')
                    else:
                        for P,Pold in zip(post.preconditioners, pre.preconditioners):
                            if not np.array_equal(np.asarray(P),np.asarray(Pold)): raise RuntimeError('precond changed off-schedule')
                eu, ds_new, ms, mg, pg, gr = R.expected_update(cfg, shape, g[k], params[k], t, post.preconditioners, pre.diagonal_statistics.to_float() if pre.diagonal_statistics.quantized is not None and not isinstance(pre.diagonal_statistics.quantized, list) else 0.0, pre.momentum.to_float(), pre.diagonal_momentum.to_float())
                r=rel(u[k], eu); stats['maxrel_upd']=max(stats['maxrel_upd'],r)
                if r>2e-3: raise RuntimeError(f'update mismatch {r} {k} t={t}')
                r=max(rel(post.momentum.to_float(), ms), rel(post.diagonal_momentum.to_float(), mg)); stats['maxrel_mom']=max(stats['maxrel_mom'],r)
                if r>2e-3: raise RuntimeError(f'momentum mismatch {r} {k} t={t}')
            st=st2; stats['steps']+=1
    except Exception as e:
        bad+=1; print('CASE',case,type(e).__name__,str(e)[:200]); print('   ',shp,c)
print(stats,'bad',bad,'time',round(time.time()-t0,1))
