import warnings, sys; warnings.filterwarnings("ignore")
import jax, jax.numpy as jnp, numpy as np
jax.config.update("jax_enable_x64", sys.argv[1]=='1')
from precondition import distributed_shampoo as ds
rng=np.random.default_rng(0)
params={'a': jnp.ones((6,4),jnp.float32), 'b': jnp.ones((5,),jnp.float32), 'c': jnp.ones((3,4,2),jnp.float32)}
bad=[]
for gt in range(7):
  for eigh in (False,True):
    for mag in (0.0,1e-12,1e12,'mix'):
      opt=ds.distributed_shampoo(0.1,4,graft_type=ds.GraftingType(gt),eigh=eigh,start_preconditioning_step=1,merge_small_dims_block_size=1)
      st=opt.init(params); upd=jax.jit(opt.update)
      for t in range(5):
        m = mag if mag!='mix' else [1e12,0.0,1e-12,1e12,1e-12][t]
        g=jax.tree.map(lambda p: jnp.asarray(rng.standard_normal(p.shape)*m,jnp.float32), params)
        u,st=upd(g,st,params)
        fin=all(np.isfinite(np.asarray(x)).all() for x in jax.tree.leaves(u))
        pf=all(np.isfinite(np.asarray(x)).all() for k in params for x in st.stats[k].preconditioners)
        if not (fin and pf): bad.append((gt,eigh,mag,t,fin,pf)); break
print('x64',sys.argv[1],'bad',bad)
