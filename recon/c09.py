import warnings, sys; warnings.filterwarnings("ignore")
import jax, jax.numpy as jnp, numpy as np
jax.config.update("jax_enable_x64", sys.argv[1]=="1")
from precondition.tearfree import sketchy
from precondition import distributed_shampoo as ds
rng=np.random.default_rng(0)
# --- tearfree sketchy over a history
d,m,k,b = 6,5,2,0.9
opt = sketchy.apply(sketchy.Options(rank=k, second_moment_decay=b, epsilon=0.0, relative_epsilon=False))
p = {'w': jnp.zeros((d,m))}
st = opt.init(p)
C = np.zeros((d,d)); t_prev=0.0
for t in range(8):
    G = rng.standard_normal((d,m)) if t not in (4,5) else np.zeros((d,m))
    u, st = opt.update({'w': jnp.asarray(G)}, st, p)
    C = b*C + G@G.T
    ax = st.sketches['w'].axes[0]
    V=np.asarray(ax.eigvecs); l=np.asarray(ax.eigvals)**2; tail=float(ax.tail)
    S = (V*l)@V.T
    lo = np.linalg.eigvalsh(C-S).min(); hi = np.linalg.eigvalsh(C-S-tail*np.eye(d)).max()
    # expected tail recurrence
    Mprev = None
    print(t, 'lo',f'{lo:.2e}','hi',f'{hi:.2e}','tail',tail, 'tail/prev', tail/t_prev if t_prev else None, 'orth', np.abs(V.T@V-np.diag(np.diag(V.T@V))).max())
    t_prev=tail
# --- DS _fd_update_root direct
print('--- DS FD root')
d=8; rank=2; p_=4; b=0.9
prev = jnp.zeros((d, rank+2))
C=np.zeros((d,d)); t_prev=0
for t in range(8):
    G = rng.standard_normal((d,3)) if t not in (4,5) else np.zeros((d,3))
    R = ds.frequent_directions_update(None, jnp.asarray(G), 0, 0, 0)
    assert np.allclose(np.asarray(R)@np.asarray(R).T, G@G.T)
    prev, m = ds._fd_update_root(R, p_, rank=rank, ridge_epsilon=0.0, relative_matrix_epsilon=False, decay=b, padding_start=d, prev=prev)
    V, l, inv, const, tail, hz = ds._fd_low_rank_unpack(prev, rank)
    V=np.asarray(V); l=np.asarray(l); tail=float(tail)
    C = b*C + G@G.T; S=(V*l)@V.T
    lo = np.linalg.eigvalsh(C-S).min(); hi = np.linalg.eigvalsh(C-S-tail*np.eye(d)).max()
    print(t,'lo',f'{lo:.2e}','hi',f'{hi:.2e}','tail',tail,'ratio',tail/t_prev if t_prev else None,'inv vs',np.asarray(inv), (l+tail)**(-1/p_), 'const', float(const), tail**(-1/p_) if tail>0 else 0, bool(hz))
    t_prev=tail
