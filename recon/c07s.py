import warnings, sys; warnings.filterwarnings("ignore")
import jax, jax.numpy as jnp, numpy as np
from jax.sharding import PartitionSpec as P
from precondition import distributed_shampoo as ds
def leaf_sd(x): return isinstance(x, list) and len(x)==2 and isinstance(x[0], (list,tuple)) and not isinstance(x[1], (list,tuple))
for memred in (False, True):
  for shapes in ([(4,3),(5,)], [(3,)], [(2,3,4),(6,1)]):
    params={f'p{i}': jnp.ones(s) for i,s in enumerate(shapes)}
    opt=ds.distributed_shampoo(0.1, 4, shard_optimizer_states=True, num_devices_for_pjit=2, statistics_partition_spec=P('x',None,None), preconditioner_partition_spec=P('x',None,None), best_effort_memory_usage_reduction=memred, skip_preconditioning_rank_lt=2)
    f=opt.init(params)
    st=f.init_fn(params); sd=f.shape_and_dtype_fn(params); ps=f.pspec_fn(params, {k: P(*([None]*v.ndim)) for k,v in params.items()}, P('x',None,None))
    a=jax.tree.leaves(st); b=jax.tree.leaves(sd, is_leaf=leaf_sd); c=jax.tree.leaves(ps, is_leaf=lambda x: isinstance(x,P))
    ta=jax.tree.structure(st); tb=jax.tree.structure(sd, is_leaf=leaf_sd); tc=jax.tree.structure(ps, is_leaf=lambda x: isinstance(x,P))
    print('memred',memred,shapes,'nleaves',len(a),len(b),len(c),'struct st==sd',ta==tb,'st==ps',ta==tc)
    if ta==tb:
        pa=jax.tree_util.tree_flatten_with_path(st)[0]
        for (path,x),y in zip(pa,b):
            if tuple(x.shape)!=tuple(int(v) for v in y[0]) or jnp.dtype(x.dtype)!=jnp.dtype(y[1]):
                print('   MISMATCH', jax.tree_util.keystr(path), x.shape, x.dtype, 'declared', y)
