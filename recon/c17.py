import warnings, sys, time, json; warnings.filterwarnings("ignore")
import jax, jax.numpy as jnp, numpy as np
from precondition.tearfree import reallocation as R
d = json.load(open('/repo/precondition/tearfree/reallocation_test_data/states.json'))
sk = d[-1]['inner_state']['0']['direction']['1']['sketches']
print(list(sk)[:5]); l0=list(sk)[0]; print(sk[l0].keys(), sk[l0]['kernel'].keys(), sk[l0]['kernel']['axes'].keys(), {k:(np.shape(v)) for k,v in sk[l0]['kernel']['axes']['0'].items()})
print(json.load(open('/repo/precondition/tearfree/reallocation_test_data/gnn_realloc.json')))
rng = np.random.default_rng(int(sys.argv[1]))
def synth(L, dims_pool, base, mode):
    sketches={}
    for l in range(L):
        axes={}
        for a in range(2):
            dim = int(rng.choice(dims_pool)); k=min(dim, base)
            if mode=='disparate': ev = np.abs(rng.standard_normal(k))*10**rng.uniform(-6,6)
            elif mode=='tied': ev = np.ones(k)*3.0
            elif mode=='zero': ev = np.zeros(k) if rng.random()<0.5 else np.abs(rng.standard_normal(k))
            else: ev = np.abs(rng.standard_normal(k))
            axes[str(a)] = {'eigvals': jnp.asarray(ev, jnp.float32), 'dim': dim, 'tail': jnp.asarray(abs(rng.standard_normal())*10**rng.uniform(-3,3), jnp.float32)}
        sketches[f'layer{l}'] = {'kernel': {'axes': axes}}
    return ({'inner_state': {'0': {'direction': {'1': {'sketches': sketches}}}}},), sketches
bad=0; exc={}; N=int(sys.argv[2])
for i in range(N):
    L=int(rng.integers(1,7)); pool=[int(x) for x in rng.choice([2,3,4,8,16,32,64], size=int(rng.integers(1,4)))]
    base=int(rng.integers(1,20)); mode=rng.choice(['normal','disparate','tied','zero']); rule=rng.choice(['sketch_trace','tail_rho','sketch_intrinsic_rank'])
    states, sk = synth(L,pool,base,mode)
    try:
        res = R.create_redist_dict('', [-1], str(rule), False, base, states)
    except Exception as e:
        exc[type(e).__name__+':'+str(e)[:40]] = exc.get(type(e).__name__+':'+str(e)[:40],0)+1; continue
    groups={}
    issues=[]
    for l in sk:
        for a in sk[l]['kernel']['axes']:
            dim=sk[l]['kernel']['axes'][a]['dim']; r=res[l]['kernel'][int(a)] if 'kernel' in res[l] else None
            groups.setdefault(dim,[]).append(r)
            if not (isinstance(r,int) and 1<=r<=dim): issues.append(('range',l,a,r,dim))
    for dim,rs in groups.items():
        if sum(rs) > len(rs)*base: issues.append(('budget',dim,rs,len(rs)*base))
    if issues:
        bad+=1
        if bad<6: print(mode, rule, base, issues[:3])
print('N',N,'bad',bad,'exc',exc)
