import warnings, sys; warnings.filterwarnings("ignore")
import jax, jax.numpy as jnp, numpy as np
jax.config.update("jax_enable_x64", True)
from precondition.tearfree import shampoo
import contextlib, io
rng=np.random.default_rng(0)
B=4
opt = shampoo.apply(shampoo.Options(block_size=B, second_moment_decay=1.0))
scales=[1e-3, 1.0, 1e3]
blocks=[[rng.standard_normal((B,3))*s for _ in range(3)] for s in scales]
full = [np.concatenate([blocks[i][t] for i in range(3)], axis=0) for t in range(3)]
with contextlib.redirect_stdout(io.StringIO()):
    p={'w': jnp.zeros((3*B,3))}; st=opt.init(p)
    for t in range(3): u, st = opt.update({'w': jnp.asarray(full[t])}, st, p)
    outs=[]
    for i in range(3):
        p2={'w': jnp.zeros((B,3))}; st2=opt.init(p2)
        for t in range(3): u2, st2 = opt.update({'w': jnp.asarray(blocks[i][t])}, st2, p2)
        outs.append(np.asarray(u2['w']))
U=np.asarray(u['w'])
for i in range(3):
    a=U[i*B:(i+1)*B]; b=outs[i]
    print('scale',scales[i],'rel diff', np.abs(a-b).max()/np.abs(b).max(), 'norms', np.linalg.norm(a), np.linalg.norm(b))
