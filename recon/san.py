import warnings, sys; warnings.filterwarnings("ignore")
import jax, jax.numpy as jnp, numpy as np
jax.config.update("jax_debug_nans", True)
from precondition import distributed_shampoo as ds
from precondition.tearfree import optimizer as tf_opt, second_order, shampoo as tshampoo, sketchy, grafting
import io, contextlib
rng=np.random.default_rng(0)
params={'a': jnp.ones((6,4)), 'b': jnp.ones((5,))}
def run(name, opt):
    try:
        st=opt.init(params); upd=jax.jit(opt.update)
        with contextlib.redirect_stdout(io.StringIO()):
          for t in range(4):
            g=jax.tree.map(lambda p: jnp.asarray(rng.standard_normal(p.shape),jnp.float32), params)
            u,st=upd(g,st,params)
        print(name,'clean under jax_debug_nans')
    except FloatingPointError as e:
        print(name,'FloatingPointError', str(e)[:150].replace('\n',' '))
run('ds', ds.distributed_shampoo(0.1,4,start_preconditioning_step=1))
run('ds_eigh', ds.distributed_shampoo(0.1,4,start_preconditioning_step=1,eigh=True))
run('ds_fd', ds.distributed_shampoo(0.1,4,start_preconditioning_step=1,compression_rank=1,frequent_directions=True,reuse_preconditioner=True))
run('ds_lowrank', ds.distributed_shampoo(0.1,8,start_preconditioning_step=1,compression_rank=1))
run('tf_shampoo', tf_opt.tearfree(0.1, tf_opt.TearfreeOptions(second_order_options=second_order.Options(merge_dims=2, shampoo_options=tshampoo.Options(block_size=4)))))
run('tf_sketchy', tf_opt.tearfree(0.1, tf_opt.TearfreeOptions(second_order_options=second_order.Options(merge_dims=2, second_order_type=second_order.SecondOrderType.SKETCHY, sketchy_options=sketchy.Options(rank=2)))))
