import warnings; warnings.filterwarnings("ignore")
import jax, jax.numpy as jnp, numpy as np
from precondition.quantization_utils import QuantizedValue as Q
def check(x, dt, diag=False):
    x = np.asarray(x, np.float32)
    q = Q.from_float_value(jnp.asarray(x), dt, diag)
    d = np.asarray(q.to_float())
    qi = np.asarray(q.quantized); bs = np.asarray(q.bucket_size)
    err = np.abs(d.astype(np.float64)-x.astype(np.float64))
    xo = x - np.diag(np.diag(x)) if diag else x
    nb = 127 if dt==jnp.int8 else 32767
    bucket = np.abs(xo).max(axis=0).astype(np.float64)/nb
    q2 = Q.from_float_value(jnp.asarray(d), dt, diag)
    return dict(maxerr_over_halfbucket=float((err/(bucket[None]/2+1e-300)).max()), minq=int(qi.min()), maxq=int(qi.max()), requant_same=bool(np.array_equal(np.asarray(q2.quantized), qi)), bs=bs[:3])
rng = np.random.default_rng(0)
print('normal', check(rng.standard_normal((7,5)), jnp.int8))
print('subnormal', check(rng.standard_normal((7,5))*1e-40, jnp.int8))
print('sub39', check(rng.standard_normal((7,5))*1e-39, jnp.int16))
print('tiny-normal', check(rng.standard_normal((7,5))*1e-36, jnp.int8))
print('big', check(rng.standard_normal((7,5))*1e38, jnp.int8))
print('maxf', check(np.full((3,2), 3.4e38), jnp.int16))
print('const', check(np.full((3,2), 2.5), jnp.int8))
print('zero', check(np.zeros((3,2)), jnp.int8))
A = rng.standard_normal((6,6)); A=A@A.T
print('diag', check(A, jnp.int16, True))
x = jnp.asarray(np.float32(1e-40)); print('ftz test: 1e-40*2 =', x*2, ' np:', np.float32(1e-40)*2)
