import warnings, sys; warnings.filterwarnings("ignore")
import jax, jax.numpy as jnp, numpy as np
jax.config.update("jax_enable_x64", sys.argv[1]=='1')
from precondition import distributed_shampoo as ds
rng=np.random.default_rng(0)
B=4; T=5
mk=lambda: ds.distributed_shampoo(1.0, B, graft_type=ds.GraftingType.NONE, start_preconditioning_step=0, beta1=0.0, nesterov=False, merge_small_dims_block_size=1, skip_preconditioning_rank_lt=0)
scales=[1e-6,1.0,1e6]
sizes=[4,4,3]  # ragged last
blocks=[[ (rng.standard_normal((sz,5))*s).astype(np.float32) for _ in range(T)] for s,sz in zip(scales,sizes)]
full=[np.concatenate([blocks[i][t] for i in range(3)],0) for t in range(T)]
def run(tree_seq, params):
    opt=mk(); st=opt.init(params); upd=jax.jit(opt.update); out=[]
    for g in tree_seq:
        u,st=upd(g,st,params); out.append(jax.tree.map(np.asarray,u))
    return out
pf={'w': jnp.zeros((11,5),jnp.float32)}
of=run([{'w':jnp.asarray(f)} for f in full], pf)
ps={f'b{i}': jnp.zeros((sizes[i],5),jnp.float32) for i in range(3)}
os_=run([{f'b{i}':jnp.asarray(blocks[i][t]) for i in range(3)} for t in range(T)], ps)
off=[0,4,8,11]
for t in range(T):
    r=[]
    for i in range(3):
        a=of[t]['w'][off[i]:off[i+1]]; b=os_[t][f'b{i}']
        r.append(float(np.abs(a-b).max()/np.abs(b).max()))
    print('t',t,'blocked-vs-separate rel diff per block',r)
# companion independence
pc={'w': jnp.zeros((11,5),jnp.float32), 'z': jnp.zeros((7,9,2),jnp.float32)}
oc=run([{'w':jnp.asarray(f), 'z': jnp.asarray(rng.standard_normal((7,9,2))*1e8, jnp.float32)} for f in full], pc)
for t in range(T):
    print('t',t,'companion rel diff', float(np.abs(oc[t]['w']-of[t]['w']).max()/np.abs(of[t]['w']).max()), 'bitwise', np.array_equal(oc[t]['w'],of[t]['w']))
