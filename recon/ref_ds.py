"""Prototype float64 reference transition model for distributed_shampoo (replicated mode).

Written from the docstrings / paper, not by transcribing update_fn.
"""
import itertools
import numpy as np

F = np.float64


def merge_small_dims(shape, max_dim):
  shape = list(shape)
  if shape and all(s == 1 for s in shape):
    return [1]
  out, prod = [], 1
  for d in shape:
    if prod * d <= max_dim:
      prod *= d
    else:
      if prod > 1:
        out.append(prod)
      prod = d
  if prod > 1:
    out.append(prod)
  return out


def block_slices(shape, block):
  """Per-axis list of (lo, hi) and the row-major product over axes."""
  per_axis = []
  for d in shape:
    if 0 < block < d:
      cuts = list(range(0, d, block))
      per_axis.append([(c, min(c + block, d)) for c in cuts])
    else:
      per_axis.append([(0, d)])
  return [tuple(slice(lo, hi) for lo, hi in combo)
          for combo in itertools.product(*per_axis)]


class Cfg:
  def __init__(self, **kw):
    self.learning_rate = 0.1
    self.block_size = 4
    self.beta1 = 0.9
    self.beta2 = 0.999
    self.diagonal_epsilon = 1e-10
    self.matrix_epsilon = 1e-6
    self.weight_decay = 0.0
    self.start_preconditioning_step = 5
    self.preconditioning_compute_steps = 1
    self.statistics_compute_steps = 1
    self.best_effort_shape_interpretation = True
    self.graft_type = 1
    self.nesterov = True
    self.exponent_override = 0
    self.inverse_failure_threshold = 0.1
    self.moving_average_for_momentum = False
    self.skip_preconditioning_dim_size_gt = 4096
    self.clip_by_scaled_gradient_norm = None
    self.relative_matrix_epsilon = True
    self.merge_small_dims_block_size = 4096
    self.precondtioner_type = 1
    self.skip_preconditioning_rank_lt = 1
    self.decoupled_learning_rate = True
    self.decoupled_weight_decay = False
    self.eigh = False
    self.__dict__.update(kw)


def lr_at(cfg, step):
  lr = cfg.learning_rate
  return float(lr(step)) if callable(lr) else float(lr)


def skip(cfg, shape):
  return len(shape) < cfg.skip_preconditioning_rank_lt or any(
      s > cfg.skip_preconditioning_dim_size_gt for s in shape)


def tshape(cfg, shape):
  if cfg.best_effort_shape_interpretation:
    return merge_small_dims(shape, cfg.merge_small_dims_block_size)
  return list(shape)


def precond_axes(cfg, rank):
  if cfg.precondtioner_type == 1 or rank <= 1:
    return list(range(rank))
  if cfg.precondtioner_type == 2:
    return list(range(rank - 1))
  return [rank - 1]


def exponent(cfg, rank):
  if cfg.exponent_override:
    return cfg.exponent_override
  return 2 * len(precond_axes(cfg, rank))


def gram(g, axis):
  m = np.moveaxis(g, axis, 0).reshape(g.shape[axis], -1)
  return m @ m.T


def expected_stats(cfg, shape, grad, old_stats, step):
  """Documented statistics recurrence: S <- b2 S + (1-b2 | 1) G G^T per block/axis."""
  ts = tshape(cfg, shape)
  g = np.asarray(grad, F).reshape(ts)
  if step % cfg.statistics_compute_steps != 0:
    return [np.asarray(s, F) for s in old_stats]
  w1 = cfg.beta2
  w2 = 1.0 if cfg.beta2 == 1.0 else 1.0 - cfg.beta2
  out, i = [], 0
  for sl in block_slices(ts, cfg.block_size):
    blk = g[sl]
    for ax in precond_axes(cfg, len(ts)):
      out.append(w1 * np.asarray(old_stats[i], F) + w2 * gram(blk, ax))
      i += 1
  assert i == len(old_stats), (i, len(old_stats))
  return out


def power_iteration_replica(a, padded_size, tol=1e-6, iters=100, f32=False):
  n = a.shape[0]
  v = np.random.RandomState(1729).uniform(-1.0, 1.0, padded_size)
  if f32:
    v = v.astype(np.float32).astype(F)
  v = v[:n].copy()
  s, i, run = 0.0, 0, True
  while i < iters and run:
    v = v / np.linalg.norm(v)
    sv = a @ v
    sn = float(v @ sv)
    run = abs(sn - s) > tol
    s, v, i = sn, sv, i + 1
  return s


def exact_root(a, p, d, floor=True):
  w, v = np.linalg.eigh(np.asarray(a, F) + d * np.eye(a.shape[0]))
  return (v * np.maximum(w, d if (d > 0 and floor) else 1e-300) ** (-1.0 / p)) @ v.T


def apply_preconditioners(cfg, shape, grad, preconds):
  ts = tshape(cfg, shape)
  g = np.asarray(grad, F).reshape(ts)
  out = np.zeros_like(g)
  axes = precond_axes(cfg, len(ts))
  i = 0
  for sl in block_slices(ts, cfg.block_size):
    blk = g[sl]
    for ax in axes:
      p = np.asarray(preconds[i], F)
      blk = np.moveaxis(np.tensordot(p, blk, axes=([0], [ax])), 0, ax)
      i += 1
    out[sl] = blk
  assert i == len(preconds)
  return out.reshape(shape)


def graft_step(cfg, grad, diag_stats, lr):
  """Returns (grafting update, new diagonal statistics)."""
  g = np.asarray(grad, F)
  gt = cfg.graft_type
  ds_new = diag_stats
  if gt in (2, 6):  # adagrad / normalized
    sg = g / (np.linalg.norm(g) + 1e-25) if gt == 6 else g
    ds_new = np.asarray(diag_stats, F) + sg * sg
    upd = sg / (np.sqrt(ds_new) + cfg.diagonal_epsilon)
  elif gt in (3, 4):
    sg = g / (np.linalg.norm(g) + 1e-25) if gt == 4 else g
    w1 = cfg.beta2
    w2 = 1.0 if cfg.beta2 == 1.0 else 1.0 - cfg.beta2
    ds_new = w1 * np.asarray(diag_stats, F) + w2 * sg * sg
    upd = sg / (np.sqrt(ds_new) + cfg.diagonal_epsilon)
    if cfg.clip_by_scaled_gradient_norm:
      n = np.linalg.norm(upd) / np.sqrt(float(upd.size))
      upd = upd / max(1.0, n / cfg.clip_by_scaled_gradient_norm)
  elif gt in (0, 1):
    upd = g
  else:  # SQRT_N: sign
    upd = np.sign(g)
  if not cfg.decoupled_learning_rate:
    upd = upd * lr
  return upd, ds_new


def expected_update(cfg, shape, grad, param, step, preconds, diag_stats,
                    mom_shampoo, mom_graft):
  """Documented _transform_grad semantics on a float64 pre-state."""
  lr = lr_at(cfg, step)
  g = np.asarray(grad, F)
  x = np.asarray(param, F)
  graft, ds_new = graft_step(cfg, g, diag_stats, lr)
  if skip(cfg, shape):
    pg = graft
  else:
    pg = apply_preconditioners(cfg, shape, g, preconds)
  if cfg.graft_type != 0:
    mult = np.linalg.norm(graft) / (np.linalg.norm(pg) + 1e-25)
  else:
    mult = 1.0
  su = pg * mult
  su_wd, gr_wd = su, graft
  if cfg.weight_decay != 0 and not cfg.decoupled_weight_decay:
    su_wd = su + cfg.weight_decay * x
    gr_wd = graft + cfg.weight_decay * x
  w = (1.0 - cfg.beta1) if cfg.moving_average_for_momentum else 1.0
  ms = cfg.beta1 * np.asarray(mom_shampoo, F) + w * su_wd
  mg = cfg.beta1 * np.asarray(mom_graft, F) + w * gr_wd
  run = step >= cfg.start_preconditioning_step
  mom = ms if run else mg
  wdu = su_wd if run else gr_wd
  out = mom
  if cfg.nesterov:
    out = w * wdu + cfg.beta1 * mom
  if cfg.weight_decay != 0 and cfg.decoupled_weight_decay:
    out = out + (1.0 if cfg.decoupled_learning_rate else lr) * cfg.weight_decay * x
  upd = -(lr if cfg.decoupled_learning_rate else 1.0) * out
  return upd, ds_new, ms, mg, pg, graft
