import warnings, sys; warnings.filterwarnings("ignore")
import jax, jax.numpy as jnp, numpy as np
jax.config.update("jax_enable_x64", sys.argv[1]=='1')
from precondition import distributed_shampoo as ds
rng=np.random.default_rng(0)
params={'a': jnp.ones((9,6),jnp.float32), 'b': jnp.ones((7,),jnp.float32), 'c': jnp.ones((3,8,2),jnp.float32)}
def dense(P, r):
    P=np.asarray(P,np.float64); d,k=P.shape
    if d==k: return P
    V,e,c,hz=[np.asarray(x) for x in ds._low_rank_unpack(jnp.asarray(P), r)]
    if hz: return np.eye(d)
    V=V.astype(np.float64); return float(c)*(np.eye(d)-V@V.T)+(V*e.astype(np.float64))@V.T
def apply_ref(shape, g, preconds, block, r):
    g=np.asarray(g,np.float64); out=np.zeros_like(g); i=0
    import itertools
    per=[[(c,min(c+block,d)) for c in range(0,d,block)] if d>block else [(0,d)] for d in shape]
    for combo in itertools.product(*per):
        sl=tuple(slice(a,b) for a,b in combo); blk=g[sl]
        for ax in range(len(shape)):
            D=dense(preconds[i], r); blk=np.moveaxis(np.tensordot(D,blk,axes=([0],[ax])),0,ax); i+=1
        out[sl]=blk
    return out
worst_n=0; worst_d=0
for mode in ['full','comp','fd','quant']:
  for gt in range(1,7):
    kw=dict(graft_type=ds.GraftingType(gt), beta1=0.0, nesterov=False, start_preconditioning_step=2, merge_small_dims_block_size=1, beta2=0.9, diagonal_epsilon=1e-8)
    r=0
    if mode=='comp': kw.update(compression_rank=2); r=2
    if mode=='fd': kw.update(compression_rank=2, frequent_directions=True, reuse_preconditioner=True); r=2
    if mode=='quant': kw.update(batch_axis_name='b', best_effort_memory_usage_reduction=True)
    opt=ds.distributed_shampoo(1.0, 8, **kw); st=opt.init(params)
    if mode=='quant':
        f=jax.pmap(lambda g,s: opt.update(g,s,params), axis_name='b', devices=jax.devices()[:1])
        upd=lambda g,s,p: jax.tree.map(lambda x:x[0], f(jax.tree.map(lambda x:x[None],g), jax.tree.map(lambda x:x[None],s)))
    else: upd=jax.jit(opt.update)
    acc={k: np.zeros(v.shape) for k,v in params.items()}
    for t in range(5):
        g={k: jnp.asarray(rng.standard_normal(v.shape)*10**rng.uniform(-2,2),jnp.float32) for k,v in params.items()}
        u,st=upd(g,st,params)
        for k in params:
            gk=np.asarray(g[k],np.float64)
            sg = gk/(np.linalg.norm(gk)+1e-25) if gt in (4,6) else gk
            if gt in (2,6): acc[k]+=sg*sg; gr=sg/(np.sqrt(acc[k])+1e-8)
            elif gt in (3,4): acc[k]=0.9*acc[k]+0.1*sg*sg; gr=sg/(np.sqrt(acc[k])+1e-8)
            elif gt==1: gr=gk
            else: gr=np.sign(gk)
            uk=-np.asarray(u[k],np.float64)
            if t<2: 
                d=np.abs(uk-gr).max()/np.abs(gr).max(); worst_d=max(worst_d,d); continue
            n=abs(np.linalg.norm(uk)/np.linalg.norm(gr)-1); worst_n=max(worst_n,n)
            pre=[p.to_float() if hasattr(p,'to_float') else p for p in st.stats[k].preconditioners]
            pg=apply_ref(params[k].shape, gk, pre, 8, r)
            cos=1-abs((uk*pg).sum()/(np.linalg.norm(uk)*np.linalg.norm(pg))); worst_d=max(worst_d,cos)
            if n>1e-4 or cos>1e-4: print('BAD',mode,gt,t,k,n,cos)
print('x64',sys.argv[1],'worst norm rel',worst_n,'worst dir',worst_d)
