import os, sys, warnings, time
warnings.filterwarnings("ignore")
os.environ["XLA_FLAGS"]="--xla_force_host_platform_device_count=8"
import jax, jax.numpy as jnp, numpy as np
jax.config.update("jax_enable_x64", True)
from precondition import distributed_shampoo as ds
params = {'a': jnp.ones((6,4), jnp.float32), 'b': jnp.ones((5,), jnp.float32), 'c': jnp.ones((3,4,2), jnp.float32)}
def run(D, quant=False, comp=0, T=4):
    rng = np.random.default_rng(0)
    opt = ds.distributed_shampoo(0.1, 4, batch_axis_name='b', start_preconditioning_step=1, merge_small_dims_block_size=1,
        best_effort_memory_usage_reduction=quant, compression_rank=comp)
    st = opt.init(params)
    rep = lambda t: jax.tree.map(lambda x: jnp.stack([x]*D), t)
    f = jax.pmap(lambda g,s: opt.update(g,s,params), axis_name='b', devices=jax.devices()[:D])
    st = rep(st)
    outs=[]
    for t in range(T):
        g = jax.tree.map(lambda p: jnp.asarray(rng.standard_normal(p.shape), jnp.float32), params)
        u, st = f(rep(g), st)
        outs.append(jax.tree.map(np.asarray, u))
    return outs, jax.tree.map(np.asarray, st)
base, bst = run(1)
nstats = sum(len(bst.stats[k].statistics) for k in params)
print('nstats', nstats)
for D in range(2,9):
    t0=time.time()
    try:
        o, st = run(D)
    except Exception as e:
        print(D, 'EXC', type(e).__name__, str(e)[:200]); continue
    mx = 0; same_dev=True; bit=True
    for ub, ud in zip(base, o):
        for k in params:
            for d in range(D):
                diff = np.abs(ud[k][d]-ub[k][0]).max()/ (np.abs(ub[k][0]).max()+1e-30)
                mx = max(mx, diff)
                bit &= np.array_equal(ud[k][d], ub[k][0])
                same_dev &= np.array_equal(ud[k][d], ud[k][0])
    print(D, 'maxrel', mx, 'bitwise', bit, 'samedev', same_dev, round(time.time()-t0,1),'s')
