import os, sys, warnings, time
warnings.filterwarnings("ignore")
import jax, jax.numpy as jnp, numpy as np
from flax import serialization
from precondition import distributed_shampoo as ds, sm3
from precondition.tearfree import optimizer as tf_opt, second_order, shampoo as tshampoo, sketchy, grafting, momentum
params = {'a': jnp.ones((6,4), jnp.float32), 'b': jnp.ones((5,), jnp.float32), 'c': jnp.ones((3,4,2), jnp.float32)}
def mk_ds(**kw): return lambda: ds.distributed_shampoo(0.1, 4, start_preconditioning_step=2, preconditioning_compute_steps=2, **kw)
def mk_tf(so): 
    return lambda: tf_opt.tearfree(0.1, tf_opt.TearfreeOptions(second_order_options=so, grafting_options=grafting.Options(start_preconditioning_step=2, skip_preconditioning_rank1=False)))
opts = {
 'ds_full': mk_ds(),
 'ds_eigh': mk_ds(eigh=True),
 'ds_comp': mk_ds(compression_rank=1),
 'ds_fd': mk_ds(compression_rank=1, frequent_directions=True, reuse_preconditioner=True, statistics_compute_steps=2),
 'ds_fd_noreuse': mk_ds(compression_rank=1, frequent_directions=True, statistics_compute_steps=2),
 'sm3': lambda: sm3.sm3(0.1),
 'tf_shampoo': mk_tf(second_order.Options(merge_dims=2, shampoo_options=tshampoo.Options(block_size=4))),
 'tf_sketchy': mk_tf(second_order.Options(merge_dims=2, second_order_type=second_order.SecondOrderType.SKETCHY, shampoo_options=None, sketchy_options=sketchy.Options(rank=2))),
}
T=6
for name, mk in opts.items():
    try:
        rng = np.random.default_rng(0)
        gs = [jax.tree.map(lambda p: jnp.asarray(rng.standard_normal(p.shape), jnp.float32), params) for _ in range(T)]
        opt = mk(); st = opt.init(params); upd = jax.jit(opt.update)
        states=[st]; ups=[]
        for g in gs:
            u, st = upd(g, st, params); ups.append(u); states.append(st)
        bad=[]
        for k in range(T+1):
            blob = serialization.to_bytes(states[k])
            opt2 = mk(); tmpl = opt2.init(params); upd2 = jax.jit(opt2.update)
            st2 = serialization.from_bytes(tmpl, blob)
            same_struct = jax.tree.structure(st2)==jax.tree.structure(states[k])
            for t in range(k, T):
                u2, st2 = upd2(gs[t], st2, params)
                eq = all(np.array_equal(np.asarray(x), np.asarray(y), equal_nan=True) for x,y in zip(jax.tree.leaves(u2), jax.tree.leaves(ups[t])))
                if not eq: bad.append((k,t))
            if not same_struct: bad.append(('struct',k))
        print(name, 'len', len(blob), 'bad', bad[:5])
    except Exception as e:
        import traceback
        print(name, 'EXC', type(e).__name__, str(e)[:300])
