import warnings, sys, time, json, traceback, collections; warnings.filterwarnings("ignore")
import jax, jax.numpy as jnp, numpy as np
from precondition import distributed_shampoo as ds
rng = np.random.default_rng(int(sys.argv[1]))
shapes_pool = [(), (1,), (5,), (1,1), (4,3), (6,1), (1,7), (2,3,4), (1,5,2), (3,1,2,2), (9,2)]
def gen():
    c = dict(
      block_size=int(rng.choice([1,2,3,4,8,16])),
      graft_type=ds.GraftingType(int(rng.integers(0,7))),
      precondtioner_type=ds.PreconditionerType(int(rng.integers(1,4))),
      beta1=float(rng.choice([0.0,0.9])), beta2=float(rng.choice([1.0,0.99,0.9])),
      nesterov=bool(rng.integers(0,2)), moving_average_for_momentum=bool(rng.integers(0,2)),
      weight_decay=float(rng.choice([0.0,0.01])), decoupled_weight_decay=bool(rng.integers(0,2)), decoupled_learning_rate=bool(rng.integers(0,2)),
      start_preconditioning_step=int(rng.choice([0,1,2])),
      preconditioning_compute_steps=int(rng.choice([1,2,3])), statistics_compute_steps=int(rng.choice([1,2,3])),
      best_effort_shape_interpretation=bool(rng.integers(0,2)), merge_small_dims_block_size=int(rng.choice([1,4,16,4096])),
      exponent_override=int(rng.choice([0,0,2,3])), eigh=bool(rng.integers(0,2)),
      compression_rank=int(rng.choice([0,0,0,1,2,-1,-2])), frequent_directions=bool(rng.random()<0.3), average_grad=bool(rng.random()<0.2),
      reset_preconditioner=bool(rng.random()<0.15), reuse_preconditioner=bool(rng.random()<0.4),
      generate_training_metrics=bool(rng.random()<0.7), generate_fd_metrics=bool(rng.random()<0.3),
      best_effort_memory_usage_reduction=bool(rng.random()<0.3),
      skip_preconditioning_rank_lt=int(rng.choice([0,1,2])), skip_preconditioning_dim_size_gt=int(rng.choice([4096,4,6])),
      lobpcg_topk_precondition=int(rng.choice([0,0,0,1,2])),
      clip_by_scaled_gradient_norm=(None if rng.random()<0.7 else 1.0),
      inverse_failure_threshold=float(rng.choice([0.1,0.0,1e30])), matrix_epsilon=float(rng.choice([1e-6,0.0,1e-3])),
      relative_matrix_epsilon=bool(rng.integers(0,2)),
    )
    if c['frequent_directions'] and rng.random()<0.8:
        c['statistics_compute_steps']=c['preconditioning_compute_steps']; 
        if c['compression_rank']<=0: c['compression_rank']=int(rng.choice([1,2]))
    nleaves=int(rng.integers(1,4)); shp=[shapes_pool[int(rng.integers(0,len(shapes_pool)))] for _ in range(nleaves)]
    return c, shp
def sig(t): return (str(jax.tree.structure(t)), tuple((tuple(x.shape), str(x.dtype)) for x in jax.tree.leaves(t)))
res=collections.Counter(); ex={}
N=int(sys.argv[2]); t0=time.time()
for i in range(N):
    c, shp = gen()
    params = {f'p{j}': jnp.ones(s, jnp.float32) for j,s in enumerate(shp)}
    try:
        opt = ds.distributed_shampoo(0.1, **c)
    except ValueError as e:
        res['ctor_reject']+=1; continue
    try:
        st = opt.init(params); s0=sig(st)
        upd = jax.jit(opt.update)
        for t in range(4):
            g = jax.tree.map(lambda p: jnp.asarray(rng.standard_normal(p.shape), jnp.float32), params)
            u, st = upd(g, st, params)
            if sig(st)!=s0: raise RuntimeError('LAYOUT state changed at step %d'%t)
            if sig(u)!=sig(params): raise RuntimeError('LAYOUT update != params')
        res['ok']+=1
    except Exception as e:
        tb = traceback.extract_tb(e.__traceback__)
        fr = [f for f in tb if '/repo/precondition' in f.filename]
        loc = (fr[-1].name, fr[-1].lineno, fr[-1].line[:50]) if fr else ('?',0,'')
        k = (type(e).__name__, loc, str(e)[:60])
        res['fail']+=1
        ex.setdefault(k, []).append((c, shp))
print(dict(res), 'time', round(time.time()-t0,1))
for k,v in sorted(ex.items(), key=lambda kv:-len(kv[1])):
    c,shp=v[0]
    print(len(v), k); print('     e.g.', shp, {kk:vv for kk,vv in c.items() if kk in ('block_size','precondtioner_type','compression_rank','frequent_directions','average_grad','reuse_preconditioner','lobpcg_topk_precondition','skip_preconditioning_rank_lt','skip_preconditioning_dim_size_gt','best_effort_memory_usage_reduction','generate_fd_metrics','generate_training_metrics','merge_small_dims_block_size','best_effort_shape_interpretation','eigh','statistics_compute_steps','preconditioning_compute_steps','reset_preconditioner')})
