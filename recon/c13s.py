import os, warnings, sys; warnings.filterwarnings("ignore")
os.environ["XLA_FLAGS"]="--xla_force_host_platform_device_count=8"
import jax, jax.numpy as jnp, numpy as np
from jax.sharding import Mesh, PartitionSpec as P
from precondition import distributed_shampoo as ds
params={'a': jnp.ones((6,4)), 'b': jnp.ones((5,)), 'c': jnp.ones((3,4,2))}
def run(D):
    rng=np.random.default_rng(0)
    opt=ds.distributed_shampoo(0.1, 4, shard_optimizer_states=True, num_devices_for_pjit=D, statistics_partition_spec=P('x',None,None), preconditioner_partition_spec=P('x',None,None), start_preconditioning_step=1, merge_small_dims_block_size=1)
    st=opt.init(params).init_fn(params); upd=jax.jit(opt.update); outs=[]
    with jax.set_mesh(Mesh(np.array(jax.devices()[:D]),('x',))):
        for t in range(4):
            g=jax.tree.map(lambda p: jnp.asarray(rng.standard_normal(p.shape),jnp.float32), params)
            u,st=upd(g,st,params); outs.append(jax.tree.map(np.asarray,u))
    n=sum(len(st.stats.local_stats[k].sizes) for k in params)
    return outs, np.asarray(st.stats.global_stats.preconditioners)[:n], n
b,pb,n=run(1); print('nstats',n)
for D in range(2,9):
    o,p_,_=run(D)
    bit=all(np.array_equal(x[k],y[k]) for x,y in zip(b,o) for k in params)
    mx=max(np.abs(x[k]-y[k]).max() for x,y in zip(b,o) for k in params)
    print(D,'updates bitwise',bit,'maxabs',mx,'preconds bitwise',np.array_equal(pb,p_), np.abs(pb-p_).max())
