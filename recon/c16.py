import warnings, sys; warnings.filterwarnings("ignore")
import jax, jax.numpy as jnp, numpy as np
jax.config.update("jax_enable_x64", True)
from precondition.oco import algorithms as A
rng=np.random.default_rng(0)
n=6; m=4; T=10; delta=0.1; lr=0.3
basis=rng.standard_normal((2,n))
gs=[rng.standard_normal(2)@basis for _ in range(T)]   # rank 2 < m
hp=A.HParams(delta=delta, lr=lr, sketch_size=m, algorithm=A.Algorithm.S_ADA)
init,upd=A.generate_init_update((n,),hp)
st=init(); w=np.zeros(n); C=np.zeros((n,n))
for t,g in enumerate(gs):
    st=upd(st, jnp.array(0.0), jnp.asarray(g))
    C+=np.outer(g,g); wv,V=np.linalg.eigh(delta*np.eye(n)+C); w=w-lr*(V*wv**-0.5)@V.T@g
    B=np.asarray(st['P'])*np.asarray(st['e'])[:,None]
    print(t,'|w-ref|',np.abs(np.asarray(st['w'])-w).max(),'alpha',float(st['alpha']),'e[-1]',float(st['e'][-1]),'|B^TB-C|',np.abs(B.T@B-C).max())
# full-rank history: bracket
hp=A.HParams(delta=delta, lr=lr, sketch_size=m, algorithm=A.Algorithm.S_ADA); init,upd=A.generate_init_update((n,),hp); st=init(); C=np.zeros((n,n)); esc=0
for t in range(8):
    g=rng.standard_normal(n); 
    Bprev=np.asarray(st['P'])*np.asarray(st['e'])[:,None]; M=Bprev.T@Bprev+np.outer(g,g); rho2=np.sort(np.linalg.eigvalsh(M))[::-1][m-1]; esc+=rho2
    st=upd(st, jnp.array(0.0), jnp.asarray(g)); C+=np.outer(g,g)
    B=np.asarray(st['P'])*np.asarray(st['e'])[:,None]; S=B.T@B
    print(t,'lo',np.linalg.eigvalsh(C-S).min(),'hi',np.linalg.eigvalsh(C-S-esc*np.eye(n)).max(),'alpha-delta-esc',float(st['alpha'])-delta-esc)
# ogd / ada
for alg in (A.Algorithm.OGD, A.Algorithm.ADA):
    hp=A.HParams(delta=delta, lr=lr, sketch_size=0, algorithm=alg); init,upd=A.generate_init_update((n,),hp); st=init(); w=np.zeros(n); h=np.ones(n)*delta
    for t in range(1,6):
        g=rng.standard_normal(n); st=upd(st, jnp.array(0.0), jnp.asarray(g))
        if alg==A.Algorithm.OGD: w-=lr*g/np.sqrt(t+delta)
        else: h+=g*g; w-=lr*g/np.sqrt(h)
    print(alg, np.abs(np.asarray(st['w'])-w).max())
