import warnings; warnings.filterwarnings("ignore")
import jax.numpy as jnp, numpy as np
from precondition.tearfree import reallocation as R
def mk(scores, dim, k):
    sk={}
    for i,s in enumerate(scores):
        ev=np.zeros(k,np.float32); ev[0]=s
        sk[f'l{i}']={'kernel':{'axes':{'0':{'eigvals':jnp.asarray(ev),'dim':dim}}}}
    return ({'inner_state':{'0':{'direction':{'1':{'sketches':sk}}}}},)
for scores in ([1e8,3,3],[1e8,3,3,3,3],[16777216.0,1.0,1.0,1.0],[5e7,5e7,3,3,3]):
    try:
        r=R.create_redist_dict('',[-1],'sketch_trace',False,10,mk(scores,64,10))
        print(scores, {k:v['kernel'] for k,v in r.items()}, 'sum', sum(v['kernel'][0] for v in r.values()), 'budget', 10*len(scores))
    except Exception as e: print(scores,'EXC',type(e).__name__,e)
