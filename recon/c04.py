import os, warnings, sys; warnings.filterwarnings("ignore")
os.environ["XLA_FLAGS"]="--xla_force_host_platform_device_count=2"
import jax, jax.numpy as jnp, numpy as np
from jax.sharding import Mesh, PartitionSpec as P
from precondition import distributed_shampoo as ds
rng=np.random.default_rng(0)
params={'a': jnp.ones((6,4)), 'b': jnp.ones((5,))}
def leaves(x): return [np.asarray(l) for l in jax.tree.leaves(x)]
def same(a,b): return all(np.array_equal(x,y,equal_nan=True) for x,y in zip(leaves(a),leaves(b)))
def lr_fn(t): return 0.1*(0.5**(t//3))
for mode in ['plain','pmapq','sharded','sched']:
    si,pi=2,3
    kw=dict(block_size=4, statistics_compute_steps=si, preconditioning_compute_steps=pi, start_preconditioning_step=2, merge_small_dims_block_size=1)
    if mode=='sched':
        kw.update(preconditioning_compute_steps=1, decay_preconditioning_compute_steps=True, end_preconditioning_compute_steps=20, statistics_compute_steps=1)
        opt=ds.distributed_shampoo(lr_fn, **kw)
    elif mode=='sharded':
        opt=ds.distributed_shampoo(0.1, shard_optimizer_states=True, num_devices_for_pjit=2, statistics_partition_spec=P('x',None,None), preconditioner_partition_spec=P('x',None,None), **kw)
    elif mode=='pmapq':
        opt=ds.distributed_shampoo(0.1, batch_axis_name='b', best_effort_memory_usage_reduction=True, **kw)
    else:
        opt=ds.distributed_shampoo(0.1, **kw)
    if mode=='sharded':
        st=opt.init(params).init_fn(params); upd=jax.jit(opt.update); ctx=jax.set_mesh(Mesh(np.array(jax.devices()),('x',)))
    elif mode=='pmapq':
        st=opt.init(params); f=jax.pmap(lambda g,s: opt.update(g,s,params), axis_name='b', devices=jax.devices()[:1])
        upd=lambda g,s,p: jax.tree.map(lambda x:x[0], f(jax.tree.map(lambda x:x[None],g), jax.tree.map(lambda x:x[None],s)))
        import contextlib; ctx=contextlib.nullcontext()
    else:
        st=opt.init(params); upd=jax.jit(opt.update); import contextlib; ctx=contextlib.nullcontext()
    with ctx:
      row=[]
      for t in range(12):
        g=jax.tree.map(lambda p: jnp.asarray(rng.standard_normal(p.shape),jnp.float32), params)
        u,st2=upd(g,st,params)
        if mode=='sharded':
            S0,S1=st.stats.global_stats.statistics, st2.stats.global_stats.statistics
            P0,P1=st.stats.global_stats.preconditioners, st2.stats.global_stats.preconditioners
            M0=[st.stats.local_stats[k].training_metrics for k in params]; M1=[st2.stats.local_stats[k].training_metrics for k in params]
        else:
            S0=[st.stats[k].statistics for k in params]; S1=[st2.stats[k].statistics for k in params]
            P0=[st.stats[k].preconditioners for k in params]; P1=[st2.stats[k].preconditioners for k in params]
            M0=[st.stats[k].training_metrics for k in params]; M1=[st2.stats[k].training_metrics for k in params]
        row.append((t, 'S' if not same(S0,S1) else '-', 'P' if not same(P0,P1) else '-', 'M' if not same(M0,M1) else '-', int(st2.count)-int(st.count)))
        st=st2
      print(mode, ' '.join(f"{t}:{a}{b}{c}{d}" for t,a,b,c,d in row))
if True:
    print('sched intervals', [float(ds.preconditioning_compute_steps_schedule(lr_fn,1,20,t)) for t in range(12)])
