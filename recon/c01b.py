import warnings, sys, time; warnings.filterwarnings("ignore")
import jax, jax.numpy as jnp, numpy as np
X64 = sys.argv[1]=='1'
jax.config.update("jax_enable_x64", X64)
from precondition import distributed_shampoo as ds
rng = np.random.default_rng(int(sys.argv[2]))
DT = jnp.float64 if X64 else jnp.float32
def power_iter(A, N, n, tol=1e-6, iters=100):
    v0=np.random.RandomState(1729).uniform(-1,1,N).astype(np.float64 if X64 else np.float32).astype(np.float64); v=v0[:n].copy(); s=0.0; i=0; run=True
    sv=v
    while i<iters and run:
        v=v/np.linalg.norm(v); sv=A@v; sn=v@sv
        run = abs(sn-s) > tol; s=sn; v=sv; i+=1
    return s
def gen():
    while True:
        n = int(rng.integers(2, 13)); rank = int(rng.integers(1, n+1))
        spread = 10**rng.uniform(0, 8); scale = 10**rng.uniform(-6, 6)
        Qm,_ = np.linalg.qr(rng.standard_normal((n,n)))
        ev = np.zeros(n); ev[:rank] = spread**(-np.linspace(0,1,rank)) if rank>1 else 1.0
        A = (Qm*ev)@Qm.T*scale; A=(A+A.T)/2
        pad = int(rng.integers(0,4)); p = int(rng.integers(1,9))
        eps = 10**rng.uniform(-12,-3); rel = bool(rng.integers(0,2)); eigh = bool(rng.integers(0,2))
        dapprox = eps*(scale if rel else 1.0)
        if eigh and rel: dapprox = eps*max(scale,1e-6)
        if eigh and not rel: dapprox = eps*1.0
        lam = np.linalg.eigvalsh(A)
        kap = (lam[-1]+dapprox)/(max(lam[0],0)+dapprox)
        if kap <= 1e8: break
    return dict(n=n,rank=rank,spread=spread,scale=scale,pad=pad,p=p,eps=eps,rel=rel,eigh=eigh), A
def call(A, c):
    n=c['n']; N=n+c['pad']
    Ap = np.zeros((N,N)); Ap[:n,:n]=A
    if c['pad']: Ap[n:,n:] = np.eye(c['pad'])
    X, m = ds.matrix_inverse_pth_root(jnp.asarray(Ap, DT), c['p'], ridge_epsilon=c['eps'], relative_matrix_epsilon=c['rel'], eigh=c['eigh'], padding_start=n if c['pad'] else None)
    return np.asarray(X, np.float64), m
u = 2.2e-16 if X64 else 6e-8
nviol=0; nacc=0; t0=time.time(); ratios=[]; asyms=[]
for i in range(int(sys.argv[3])):
    c, A = gen()
    X, m = call(A, c)
    n=c['n']; N=n+c['pad']; err=float(m.inverse_pth_root_errors); 
    Ain = np.asarray(jnp.asarray(A, DT), np.float64); lam=np.linalg.eigvalsh(Ain)
    issues=[]
    if not np.isfinite(X).all(): issues.append('nonfinite')
    if c['pad'] and (np.abs(X[n:]).sum()!=0 or np.abs(X[:,n:]).sum()!=0): issues.append('padnonzero')
    mev = float(m.max_eigen_value)
    pi = power_iter(Ain, N, n, tol=1e-6)
    if not c['eigh'] and c['rel']:
        if mev > lam[-1]*(1+1e-6): issues.append(('maxev',mev,lam[-1]))
        if abs(mev-pi) > 2e-7*abs(pi)+1e-30: issues.append(('replica',mev,pi))
    if err < 0.1:
        nacc+=1
        if c['eigh']:
            d = c['eps']*max(pi if c['rel'] else 1.0, 1e-6)
        else:
            r = int(m.total_retries); d = c['eps']*max(pi if c['rel'] else 1.0,1e-25)*10**(r-1)
        Ad = Ain + d*np.eye(n)
        R = np.linalg.matrix_power(X[:n,:n], c['p'])@Ad - np.eye(n)
        res = np.abs(R).max(); kappa = (lam[-1]+d)/(max(lam[0],0)+d)
        ratios.append(((res-err)/(u*kappa), c['eigh'], c['p'], n, kappa, res, err))
        asyms.append((np.abs(X-X.T).max()/np.abs(X).max()/(u*kappa), c['eigh']))
    if issues:
        nviol+=1; print('VIOL', c, 'err',err, issues)
ratios.sort(key=lambda x:-x[0])
print('top ratios (res-err)/(u kappa):'); 
for r in ratios[:8]: print('  ', r)
asyms.sort(key=lambda x:-x[0]); print('top asym/(u kappa):', asyms[:5])
print('x64',X64,'cases',i+1,'accepted',nacc,'viol',nviol,'time',round(time.time()-t0,1))
