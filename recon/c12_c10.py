import warnings, sys; warnings.filterwarnings("ignore")
import jax, jax.numpy as jnp, numpy as np
jax.config.update("jax_enable_x64", True)
from precondition import sm3, distributed_shampoo as ds
rng=np.random.default_rng(0)
# C12
for shape in [(5,),(3,4),(2,3,4)]:
  for b2 in (1.0,0.9):
    opt=sm3.sm3(0.5, beta1=0.0, beta2=b2); p={'w': jnp.zeros(shape,jnp.float32)}; st=opt.init(p); nu=np.zeros(shape); ok=True; worst=0
    for t in range(6):
        g=rng.standard_normal(shape)*10**rng.uniform(-2,2); gj=jnp.asarray(g,jnp.float32); g32=np.asarray(gj,np.float64)
        u,st=opt.update({'w':gj},st,p)
        nu=b2*nu+(1.0 if b2==1.0 else 1-b2)*g32**2
        accs=[np.asarray(a,np.float64) for a in st.stats['w'].diagonal_statistics]
        mn=None
        for i,a in enumerate(accs):
            sh=[1]*len(shape); sh[i]=shape[i]; e=a.reshape(sh)*np.ones(shape); mn=e if mn is None else np.minimum(mn,e)
        cover=(mn>=nu*(1-1e-5)).all()
        step=np.abs(np.asarray(u['w'],np.float64)); ada=0.5*np.abs(g32)/np.sqrt(nu+1e-10)
        le=(step<=ada*(1+1e-5)).all(); eq=np.allclose(step,ada,rtol=1e-5) if len(shape)==1 else None
        ok&=cover&le
    print('sm3',shape,b2,'cover&step<=ada',ok,'rank1 eq',eq)
# C10 apply packed vs dense
d=8;r=2
Qm,_=np.linalg.qr(rng.standard_normal((d,d))); V=Qm[:,:r]; e=np.array([0.3,0.7]); c=1.9
packed=ds._low_rank_pack(jnp.asarray(V),jnp.asarray(e),c,r)
D=c*(np.eye(d)-V@V.T)+(V*e)@V.T
class P: pass
pre=ds.Preconditioner(jnp.zeros((d,5)),  block_size=16, merge_small_dims_block_size=1, best_effort_shape_interpretation=False, preconditioner_type=ds.PreconditionerType.INPUT, compression_rank=r)
G=rng.standard_normal((d,5))
out=pre.preconditioned_grad(jnp.asarray(G),[packed])
print('C10 apply diff', np.abs(np.asarray(out)-D@G).max())
A=rng.standard_normal((d,d)); A=A@A.T
for cr in (2,-2):
    val,m=ds._low_rank_root(jnp.asarray(A),4,compression_rank=cr,ridge_epsilon=1e-6,relative_matrix_epsilon=False,padding_start=d)
    Vv,iv,cc,hz=ds._low_rank_unpack(val,cr); Vv=np.asarray(Vv); Dp=float(cc)*(np.eye(d)-Vv@Vv.T)+(Vv*np.asarray(iv))@Vv.T
    w,U=np.linalg.eigh(A+1e-6*np.eye(d)); rt=w**-0.25
    idx=np.argsort(w)[::-1][:2] if cr>0 else np.argsort(w)[:2]; rest=[i for i in range(d) if i not in idx]
    Dr=(U[:,idx]*rt[idx])@U[:,idx].T + rt[rest].mean()*(np.eye(d)-U[:,idx]@U[:,idx].T)
    print('C10 root cr',cr,'diff',np.abs(Dp-Dr).max()/np.abs(Dr).max())
