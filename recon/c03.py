import os, sys, warnings
warnings.filterwarnings("ignore")
os.environ["XLA_FLAGS"]="--xla_force_host_platform_device_count=2"
import jax, jax.numpy as jnp, numpy as np
from jax.sharding import Mesh, PartitionSpec as P
from precondition import distributed_shampoo as ds
params = {'a': jnp.ones((4,3)), 'b': jnp.ones((5,))}
rng = np.random.default_rng(0)
def grads(kind):
    g = jax.tree.map(lambda p: np.asarray(rng.standard_normal(p.shape), np.float32), params)
    if kind=='nan': g['a'][1,1]=np.nan
    if kind=='inf': g['a'][1,1]=np.inf
    if kind=='huge': g = jax.tree.map(lambda x: x*1e30, g)
    if kind=='zero': g = jax.tree.map(lambda x: x*0, g)
    if kind=='tiny': g = jax.tree.map(lambda x: x*1e-30, g)
    return jax.tree.map(jnp.asarray, g)
seq = ['ok','ok','nan','ok','inf','ok','huge','ok','zero','tiny','ok']
def precs(state, mode):
    if mode=='sharded':
        return [np.asarray(state.stats.global_stats.preconditioners)]
    out=[]
    for k in sorted(params):
        for p in state.stats[k].preconditioners:
            out.append(np.asarray(p.to_float() if hasattr(p,'to_float') else p))
    return out
def errs(state, mode):
    if mode=='sharded':
        return np.concatenate([np.asarray(state.stats.local_stats[k].training_metrics.inverse_pth_root_errors) for k in sorted(params)])
    return np.concatenate([np.asarray(state.stats[k].training_metrics.inverse_pth_root_errors).reshape(-1) for k in sorted(params)])
for mode in ['plain','pmapq','sharded']:
  for eigh in [False, True]:
    rng = np.random.default_rng(0)
    kw = dict(start_preconditioning_step=1, graft_type=ds.GraftingType.SGD, eigh=eigh, block_size=8, merge_small_dims_block_size=1)
    if mode=='sharded':
        mesh = Mesh(np.array(jax.devices()), ('x',))
        opt = ds.distributed_shampoo(0.1, shard_optimizer_states=True, num_devices_for_pjit=2,
            statistics_partition_spec=P('x',None,None), preconditioner_partition_spec=P('x',None,None), **kw)
        state = opt.init(params).init_fn(params)
        upd = jax.jit(opt.update)
        ctx = jax.set_mesh(mesh)
    elif mode=='pmapq':
        opt = ds.distributed_shampoo(0.1, batch_axis_name='b', best_effort_memory_usage_reduction=True, **kw)
        state = opt.init(params)
        f = jax.pmap(lambda g,s: opt.update(g,s,params), axis_name='b', devices=jax.devices()[:1])
        upd = lambda g,s,p: jax.tree.map(lambda x:x[0], f(jax.tree.map(lambda x:x[None],g), jax.tree.map(lambda x:x[None],s)))
        import contextlib; ctx = contextlib.nullcontext()
    else:
        opt = ds.distributed_shampoo(0.1, **kw)
        state = opt.init(params)
        upd = jax.jit(opt.update)
        import contextlib; ctx = contextlib.nullcontext()
    with ctx:
      for t,kind in enumerate(seq):
        g = grads(kind)
        before = precs(state, mode)
        u, state = upd(g, state, params)
        after = precs(state, mode)
        fin_p = all(np.isfinite(a).all() for a in after)
        fin_u = all(np.isfinite(np.asarray(x)).all() for x in jax.tree.leaves(u))
        changed = [not np.array_equal(a,b) for a,b in zip(before,after)]
        print(mode, eigh, t, kind, 'precfinite',fin_p,'updfinite',fin_u,'changed',changed,'errs',errs(state,mode))
