import warnings, sys, io, contextlib, itertools; warnings.filterwarnings("ignore")
import jax, jax.numpy as jnp, numpy as np
jax.config.update("jax_enable_x64", True)
from precondition.tearfree import optimizer as tf_opt, second_order, shampoo as tshampoo, grafting, momentum
import ref_ds as R
rng=np.random.default_rng(int(sys.argv[1]))
def ref_shampoo_step(state, g, block, decay, sfreq, pfreq, merge_dims):
    """state: dict(count, stats{blockkey: [L_axis...]}, roots{...}); g float64 array in original shape."""
    shape=g.shape; ms=R.merge_small_dims(shape, merge_dims)
    if ms==[1]: ms=[]
    gm=g.reshape(ms); out=np.zeros_like(gm)
    per_axis=[[(c,min(c+block,d)) for c in range(0,d,block)] if d>=block else [(0,d)] for d in ms]
    cnt=state['count']; p=2*len(ms)
    for combo in itertools.product(*per_axis):
        sl=tuple(slice(a,b) for a,b in combo); blk=gm[sl]
        key=combo
        if key not in state['stats']:
            state['stats'][key]=[np.zeros((b-a,b-a)) for a,b in combo]; state['roots'][key]=[np.eye(b-a) for a,b in combo]
        if cnt % sfreq==0:
            for ax in range(len(ms)):
                c=R.gram(blk,ax); old=state['stats'][key][ax]
                state['stats'][key][ax]= old+c if decay==1.0 else old*decay+c*(1-decay)
        if cnt % pfreq==0:
            for ax in range(len(ms)):
                w,v=np.linalg.eigh(state['stats'][key][ax]); m=w<=1e-6*w.max()
                r=np.where(m,0.0,np.where(m,1.0,w)**(-1.0/p)); state['roots'][key][ax]=(v*r)@v.T
        for ax in range(len(ms)):
            blk=np.moveaxis(np.tensordot(state['roots'][key][ax], blk, axes=([1],[ax])),0,ax)
        out[sl]=blk
    state['count']+=1
    return out.reshape(shape)
worst=0
for case in range(int(sys.argv[2])):
    block=int(rng.choice([2,3,4])); merge=int(rng.choice([2,4,6,100])); decay=float(rng.choice([1.0,0.9,0.99])); sf=int(rng.choice([1,2])); pf=int(rng.choice([1,2,3]))
    start=int(rng.choice([0,1,3])); gdecay=float(rng.choice([1.0,0.9])); ema=bool(rng.integers(0,2)); nest=bool(rng.integers(0,2)); md=float(rng.choice([0.0,0.9,0.5])); wd=float(rng.choice([0.0,0.1])); wdam=bool(rng.integers(0,2)); lr=float(rng.choice([0.1,1.0]))
    gtype=[grafting.GraftingType.NONE,grafting.GraftingType.SGD,grafting.GraftingType.RMSPROP][int(rng.integers(0,3))]
    shapes=[(4,3),(6,),(2,3,2),(5,1,2),(8,4)]; shp=[shapes[int(rng.integers(0,len(shapes)))] for _ in range(2)]
    opts=tf_opt.TearfreeOptions(grafting_options=grafting.Options(grafting_type=gtype, second_moment_decay=gdecay if gtype==grafting.GraftingType.RMSPROP else 0.0, start_preconditioning_step=start, epsilon=1e-8, skip_preconditioning_rank1=False),
        second_order_options=second_order.Options(merge_dims=merge, shampoo_options=tshampoo.Options(block_size=block, update_preconditioners_freq=pf, update_statistics_freq=sf, second_moment_decay=decay)),
        momentum_options=momentum.Options(ema=ema, nesterov=nest, momentum_decay=md, weight_decay=wd, weight_decay_after_momentum=wdam))
    params={f'p{i}': jnp.asarray(rng.standard_normal(s)) for i,s in enumerate(shp)}
    try:
        with contextlib.redirect_stdout(io.StringIO()):
            opt=tf_opt.tearfree(lr, opts); st=opt.init(params)
    except ValueError as e:
        print('reject', shp, block, merge, str(e)[:60]); continue
    ref={k: dict(count=0,stats={},roots={}) for k in params}; acc={k: np.zeros(v.shape) for k,v in params.items()}; trace={k: np.zeros(v.shape) for k,v in params.items()}
    for t in range(6):
        g={k: jnp.asarray(rng.standard_normal(v.shape)*10**rng.uniform(-1,1)) for k,v in params.items()}
        with contextlib.redirect_stdout(io.StringIO()):
            u,st=opt.update(g,st,params)
        for k in params:
            gk=np.asarray(g[k]); x=np.asarray(params[k])
            so=ref_shampoo_step(ref[k], gk, block, decay, sf, pf, merge)
            if gtype==grafting.GraftingType.NONE: gr=so
            else:
                if gtype==grafting.GraftingType.SGD: gu=gk
                else:
                    acc[k]= acc[k]+gk*gk if gdecay==1.0 else gk*gk*(1-gdecay)+gdecay*acc[k]; gu=gk/np.sqrt(acc[k]+1e-8)
                bn=np.linalg.norm(so); gr = so*(np.linalg.norm(gu)/bn if bn>0 else 0.0) if t>=start else gu
            v=gr
            if wd>0 and not wdam: v=v+wd*x
            if md:
                if ema: v=v*(1-md)
                trace[k]=v+md*trace[k]; v = v+md*trace[k] if nest else trace[k]
            if wd>0 and wdam: v=v+wd*x
            e=-lr*v
            r=np.abs(np.asarray(u[k])-e).max()/(np.abs(e).max()+1e-300); worst=max(worst,r)
            if r>1e-8: print('MISMATCH',case,t,k,r,shp,dict(block=block,merge=merge,decay=decay,sf=sf,pf=pf,start=start,g=gtype,ema=ema,nest=nest,md=md,wd=wd,wdam=wdam)); break
print('worst rel',worst)
