import warnings, sys, hashlib; warnings.filterwarnings("ignore")
import jax, jax.numpy as jnp, numpy as np
from flax import serialization
from precondition import distributed_shampoo as ds
from precondition.tearfree import optimizer as tf_opt, second_order, sketchy, grafting
params={'a': jnp.ones((6,4),jnp.float32), 'b': jnp.ones((5,),jnp.float32), 'c': jnp.ones((3,4,2),jnp.float32)}
rng=np.random.default_rng(0)
h=hashlib.sha256()
for opt in [ds.distributed_shampoo(0.1,4,start_preconditioning_step=1), ds.distributed_shampoo(0.1,4,start_preconditioning_step=1,eigh=True,compression_rank=1),
            tf_opt.tearfree(0.1, tf_opt.TearfreeOptions(second_order_options=second_order.Options(merge_dims=2, second_order_type=second_order.SecondOrderType.SKETCHY, sketchy_options=sketchy.Options(rank=2)), grafting_options=grafting.Options(skip_preconditioning_rank1=False)))]:
    st=opt.init(params); upd=jax.jit(opt.update)
    for t in range(5):
        g=jax.tree.map(lambda p: jnp.asarray(rng.standard_normal(p.shape),jnp.float32), params)
        u,st=upd(g,st,params)
        for x in jax.tree.leaves(u): h.update(np.asarray(x).tobytes())
    h.update(serialization.to_bytes(st))
print(h.hexdigest())
