import os, warnings, sys; warnings.filterwarnings("ignore")
os.environ["XLA_FLAGS"]="--xla_force_host_platform_device_count=4"
import jax, jax.numpy as jnp, numpy as np
from jax.sharding import Mesh, PartitionSpec as P
from precondition import distributed_shampoo as ds
events=[]
orig=ds.matrix_inverse_pth_root
def tapped(matrix, p, *a, **kw):
    X, m = orig(matrix, p, *a, **kw)
    def cb(matrix, p, X, err, ps): events.append((np.asarray(matrix).shape, int(p), float(err), int(ps)))
    jax.debug.callback(cb, matrix, p, X, m.inverse_pth_root_errors, kw.get('padding_start'))
    return X, m
ds.matrix_inverse_pth_root = tapped
params={'a': jnp.ones((6,4),jnp.float32), 'b': jnp.ones((5,),jnp.float32)}
rng=np.random.default_rng(0)
G=lambda: jax.tree.map(lambda p: jnp.asarray(rng.standard_normal(p.shape),jnp.float32), params)
# sharded
opt=ds.distributed_shampoo(0.1,4,shard_optimizer_states=True,num_devices_for_pjit=4,statistics_partition_spec=P('x',None,None),preconditioner_partition_spec=P('x',None,None),preconditioning_compute_steps=2)
st=opt.init(params).init_fn(params); upd=jax.jit(opt.update)
with jax.set_mesh(Mesh(np.array(jax.devices()),('x',))):
    for t in range(4):
        u,st=upd(G(),st,params); jax.block_until_ready(u); jax.effects_barrier(); print('sharded step',t,'events',len(events))
print(sorted(set(e[3] for e in events)))
events.clear()
# pmap 3 devices
opt=ds.distributed_shampoo(0.1,4,batch_axis_name='b',preconditioning_compute_steps=2)
st=opt.init(params); D=3
rep=lambda t: jax.tree.map(lambda x: jnp.stack([x]*D), t)
f=jax.pmap(lambda g,s: opt.update(g,s,params), axis_name='b', devices=jax.devices()[:D]); st=rep(st)
for t in range(4):
    u,st=f(rep(G()),st); jax.block_until_ready(u); jax.effects_barrier(); print('pmap step',t,'events',len(events))
